"""SymNP core: symbolic scalars (SR real / SC complex / SB bool) over z3 terms,
the execution context (facts, preconditions, path), forking and solver queries.

Everything symbolic is a z3 Real/Bool term; concrete values are exact Fractions
(a Python float is converted with Fraction(float), i.e. the exact binary value).
"""
from fractions import Fraction
import itertools
import math
import time

import numpy as np
import z3


# ----------------------------------------------------------------------------
# context
# ----------------------------------------------------------------------------
class Ctx:
    def __init__(self):
        self.pre = []              # preconditions (persist over paths of one case)
        self.stats = dict(queries=0, solver_s=0.0, guards=0, forks=0, unknown=0)
        self.guard_timeout_ms = 400
        self.fork_timeout_ms = 20000
        self.resolve_guards = True
        self.purify_div = True
        self.lazy = False              # lazy forks: no feasibility query at a fork (checked when a candidate arises)
        self.reset_path()

    def reset_path(self):
        self.n = 0
        self.facts = []            # axioms about fresh vars (stubs, sqrt, exp ...)
        self.simple = []           # linear / sign facts usable for guard resolution
        self.path = []             # branch decisions of this run
        self.schedule = []         # forced decisions (prefix)
        self.pos = 0
        self.exp_reg = {}          # key -> (arg, var)
        self.log_reg = {}
        self.sqrt_reg = {}
        self.rec_reg = {}
        self.ang_reg = {}
        self.uf_reg = {}
        self.stub_reg = {}
        self.divisors = []         # (divisor term, proven_nonzero)
        self.implied_cache = {}
        self.assume_defined = False    # reciprocal facts r*d == 1 unconditionally (divisors assumed non-zero; logged)
        self.decided = {}              # condition ast id -> decision on this path
        self.order = {}                # term id -> {term id: strict}   edges x -> y meaning x > y (strict) or x >= y
        self.notes = []

    def fresh(self, name, sort='R'):
        self.n += 1
        nm = f'{name}!{self.n}'
        return z3.Real(nm) if sort == 'R' else z3.Bool(nm)

    def fact(self, f, simple=False):
        self.facts.append(f)
        if simple:
            self.simple.append(f)

    def path_terms(self):
        return [p for p in self.path if not isinstance(p, tuple)]


CTX = Ctx()


class Abort(BaseException):
    """Path is infeasible / cut; BaseException so that `except Exception` in code under test does not swallow it."""


class Unsupported(Exception):
    """The engine cannot model an operation (harness error, never a verdict)."""


class NaNProduced(Exception):
    """the code under test computed inf - inf / 0 * inf on this path (IEEE: NaN)"""


def zr(x):
    if isinstance(x, z3.ExprRef):
        return x
    if isinstance(x, bool):
        return z3.RealVal(int(x))
    if isinstance(x, int):
        return z3.RealVal(x)
    if isinstance(x, Fraction):
        return z3.RealVal(str(x))
    if isinstance(x, float):
        if x != x or x in (float('inf'), float('-inf')):
            raise Unsupported('non-finite concrete value %r in a symbolic expression' % x)
        return z3.RealVal(str(Fraction(x)))
    raise TypeError(type(x))


def key_of(t):
    return z3.simplify(t, som=True, sort_sums=True).sexpr()


# ----------------------------------------------------------------------------
# solver helpers
# ----------------------------------------------------------------------------
def _mk_solver(timeout_ms, tactic=None, seed=None):
    s = z3.Solver() if tactic is None else z3.Then(*tactic).solver() if isinstance(tactic, (list, tuple)) else z3.Tactic(tactic).solver()
    s.set('timeout', int(timeout_ms))
    if seed is not None and tactic is None:
        s.set('random_seed', int(seed))
    return s


_VARS = {}      # ast id -> (term kept alive, frozenset of uninterpreted-constant ids)


def _vars_cached(e):
    i = e.get_id()
    hit = _VARS.get(i)
    if hit is not None:
        return hit[1]
    # iterative post-order over the DAG with memoisation
    stack = [(e, False)]
    while stack:
        t, done = stack.pop()
        ti = t.get_id()
        if ti in _VARS:
            continue
        ch = t.children()
        if not ch:
            if z3.is_const(t) and t.decl().kind() == z3.Z3_OP_UNINTERPRETED:
                _VARS[ti] = (t, frozenset((ti,)))
            else:
                _VARS[ti] = (t, frozenset())
            continue
        if done:
            acc = set()
            for c in ch:
                acc |= _VARS[c.get_id()][1]
            _VARS[ti] = (t, frozenset(acc))
        else:
            stack.append((t, True))
            for c in ch:
                if c.get_id() not in _VARS:
                    stack.append((c, False))
    return _VARS[i][1]


_PYVARS = {}


def _pyvars(f):
    """variable set by python object identity (pool members are long-lived list elements)"""
    k = id(f)
    hit = _PYVARS.get(k)
    if hit is not None and hit[0] is f:
        return hit[1]
    v = _vars_cached(f)
    _PYVARS[k] = (f, v)
    return v


_IMPLIED_GLOBAL = {}   # ast hash -> [(term, result)]   definite results are monotone in the fact set


def vars_of(e, acc=None):
    v = _vars_cached(e)
    if acc is None:
        return set(v)
    acc |= v
    return acc


def cone(goal_terms, pool):
    """transitive cone of influence: members of pool sharing variables with the goal"""
    want = set()
    for g in goal_terms:
        vars_of(g, want)
    items = [(f, _pyvars(f)) for f in pool]
    chosen = []
    left = items
    changed = True
    while changed:
        changed = False
        rest = []
        for f, v in left:
            if not v or (v & want):
                chosen.append(f)
                if v - want:
                    want |= v
                    changed = True
            else:
                rest.append((f, v))
        left = rest
    return chosen


def solve(neg_goal, extra=(), timeout_ms=30000, use_cone=True, tactic=None, seed=None, facts=None, with_path=True):
    """check pre & facts & path & extra & neg_goal.  returns (verdict, model|None)"""
    pool = list(CTX.pre) + list(CTX.facts if facts is None else facts) + (CTX.path_terms() if with_path else []) + list(extra)
    if use_cone:
        pool = cone([neg_goal], pool)
    s = _mk_solver(timeout_ms, tactic, seed)
    for f in pool:
        s.add(f)
    s.add(neg_goal)
    t0 = time.time()
    try:
        r = str(s.check())
    except z3.Z3Exception:
        r = 'unknown'
    CTX.stats['queries'] += 1
    CTX.stats['solver_s'] += time.time() - t0
    if r == 'unknown':
        CTX.stats['unknown'] += 1
    return r, (s.model() if r == 'sat' else None)


_ATOMS = {}      # ast id of a nonlinear product -> (term, fresh atom)
_NL_CACHE = {}   # ast id -> (term, tuple of top-most nonlinear products inside)


def _is_numeral(t):
    return z3.is_rational_value(t) or z3.is_int_value(t) or z3.is_algebraic_value(t)


def _nonlinear_products(t):
    """top-most nonlinear product subterms of t (memoised over the DAG)"""
    i = t.get_id()
    hit = _NL_CACHE.get(i)
    if hit is not None:
        return hit[1]
    out = []
    seen = set()
    stack = [t]
    while stack:
        u = stack.pop()
        ui = u.get_id()
        if ui in seen:
            continue
        seen.add(ui)
        if z3.is_app(u) and u.decl().kind() in (z3.Z3_OP_MUL, z3.Z3_OP_POWER, z3.Z3_OP_DIV):
            non_num = [c for c in u.children() if not _is_numeral(c)]
            if len(non_num) >= 2 or (u.decl().kind() != z3.Z3_OP_MUL and len(non_num) >= 1):
                out.append(u)
                continue
        stack.extend(u.children())
    _NL_CACHE[i] = (t, tuple(out))
    return _NL_CACHE[i][1]


def linear_abstraction(formulas):
    """replace every top-most nonlinear product by a fresh real atom (same term -> same atom).
    Over-approximation: unsat of the abstraction implies unsat of the original."""
    out = []
    for f in formulas:
        subs = []
        for u in _nonlinear_products(f):
            ui = u.get_id()
            if ui not in _ATOMS:
                _ATOMS[ui] = (u, z3.Real('atom!%d' % len(_ATOMS)))
            subs.append((u, _ATOMS[ui][1]))
        out.append(z3.substitute(f, *subs) if subs else f)
    return out


def solve_linear(neg_goal, extra=(), timeout_ms=3000, with_path=True, want_model=False):
    pool = list(CTX.pre) + list(CTX.facts) + (CTX.path_terms() if with_path else []) + list(extra)
    pool = cone([neg_goal], pool)
    s = z3.Solver()
    s.set('timeout', int(timeout_ms))
    t0 = time.time()
    try:
        for f in linear_abstraction(pool + [neg_goal]):
            s.add(f)
        r = str(s.check())
    except z3.Z3Exception:
        r = 'unknown'
    CTX.stats['queries'] += 1
    CTX.stats['solver_s'] += time.time() - t0
    if want_model:
        return r, (s.model() if r == 'sat' else None)
    return r


PORTFOLIO = [
    dict(),
    dict(tactic='qfnra-nlsat'),
    dict(seed=7),
    dict(tactic=['simplify', 'solve-eqs', 'smt']),
]


def decide(neg_goal, extra=(), timeout_ms=30000, facts=None):
    """staged context (a proof from fewer assumptions is a proof), then portfolio: first definite answer wins"""
    has_path = bool(CTX.path_terms())
    if facts is None and solve_linear(neg_goal, extra=(), timeout_ms=min(3000, timeout_ms)) == 'unsat':
        return 'unsat', None
    stages = [dict(extra=(), with_path=False, t=min(3000, timeout_ms))]
    if has_path:
        stages.append(dict(extra=(), with_path=True, t=min(5000, timeout_ms)))
    if extra and has_path:
        stages.append(dict(extra=extra, with_path=False, t=min(timeout_ms // 2, 10000)))
    for st in stages:
        if not extra and st['with_path'] == has_path:
            break                      # identical to the full query below
        r, m = solve(neg_goal, extra=st['extra'], timeout_ms=st['t'], facts=facts, with_path=st['with_path'])
        if r == 'unsat':
            return r, None
    last = 'unknown'
    for i, cfg in enumerate(PORTFOLIO):
        t = timeout_ms if i == 0 else max(timeout_ms // 2, 2000)
        r, m = solve(neg_goal, extra=extra, timeout_ms=t, facts=facts, **cfg)
        if r in ('sat', 'unsat'):
            return r, m
        last = r
    return last, None


def implied(e, timeout_ms=None):
    """True/False if e (resp. not e) follows from pre + path + simple facts, else None"""
    if timeout_ms is None:
        timeout_ms = CTX.guard_timeout_ms
    k = (e.get_id(), len(CTX.path), len(CTX.pre), len(CTX.simple))
    if k in CTX.implied_cache:
        return CTX.implied_cache[k]
    ck = None
    if CTX.lazy:
        # canonical key: runs that build the same guard in a different summation order must resolve it identically
        ck = (z3.simplify(e, som=True, sort_sums=True).sexpr(), len(CTX.pre))
        if ck in _IMPLIED_GLOBAL:
            return _IMPLIED_GLOBAL[ck]
    res = None
    pool = list(CTX.pre) + ([] if CTX.lazy else CTX.path_terms()) + list(CTX.simple)
    pool = cone([e], pool)
    for val, f in ((True, z3.Not(e)), (False, e)):
        s = z3.Solver()
        s.set('timeout', int(timeout_ms))
        for x in pool:
            s.add(x)
        s.add(f)
        t0 = time.time()
        try:
            r = str(s.check())
        except z3.Z3Exception:
            r = 'unknown'
        CTX.stats['guards'] += 1
        CTX.stats['solver_s'] += time.time() - t0
        if r == 'unsat':
            res = val
            break
    CTX.implied_cache[k] = res
    if ck is not None:
        _IMPLIED_GLOBAL[ck] = res
    return res


def _as_order(e):
    """e -> (x, y, strict) meaning x > y / x >= y, or None"""
    neg = False
    while z3.is_not(e):
        e = e.arg(0)
        neg = not neg
    if z3.is_gt(e):
        x, y, strict = e.arg(0), e.arg(1), True
    elif z3.is_ge(e):
        x, y, strict = e.arg(0), e.arg(1), False
    elif z3.is_lt(e):
        x, y, strict = e.arg(1), e.arg(0), True
    elif z3.is_le(e):
        x, y, strict = e.arg(1), e.arg(0), False
    else:
        return None
    if neg:                       # not (x > y)  ==  y >= x ;  not (x >= y) == y > x
        x, y, strict = y, x, not strict
    return x, y, strict


def _reach(src, dst):
    """best path src ->* dst in the order graph: None (unreachable), False (>=), True (> somewhere)"""
    best = None
    seen = {}
    stack = [(src, False)]
    while stack:
        n, st = stack.pop()
        if n in seen and (seen[n] or not st):
            continue
        seen[n] = st
        if n == dst:
            if st:
                return True
            best = False
        for m, s2 in CTX.order.get(n, {}).items():
            stack.append((m, st or s2))
    return best


def order_implied(e):
    """decide an order atom from the atoms already on the path by transitivity (sound, incomplete)"""
    o = _as_order(e)
    if o is None:
        return None
    x, y, strict = o
    xi, yi = x.get_id(), y.get_id()
    if xi == yi:
        return not strict
    r = _reach(xi, yi)            # x >= y or x > y known
    if r is True or (r is False and not strict):
        return True
    r2 = _reach(yi, xi)           # y >= x or y > x known
    if r2 is True or (r2 is False and strict):
        return False
    return None


def order_learn(e, decision):
    o = _as_order(e if decision else z3.Not(e))
    if o is None:
        return
    x, y, strict = o
    d = CTX.order.setdefault(x.get_id(), {})
    d[y.get_id()] = strict or d.get(y.get_id(), False)
    CTX.notes_keep = getattr(CTX, 'notes_keep', [])
    CTX.notes_keep.append((x, y))     # keep terms alive (ids stay valid)


def feasible(c):
    r, _ = solve(c, timeout_ms=CTX.fork_timeout_ms)
    return r


class Budget(BaseException):
    """wall-clock budget of the case exhausted (raised from fork so that fork-heavy paths cannot hang a check)"""


def fork(cond):
    """Python branch on a symbolic boolean: follow the decision schedule, prefer True."""
    if getattr(CTX, 'deadline', None) and time.time() > CTX.deadline:
        raise Budget('case budget exceeded')
    i = CTX.pos
    CTX.pos += 1
    if i < len(CTX.schedule):
        d = CTX.schedule[i]
    else:
        d = True
        CTX.schedule.append(d)
    c = cond if d else z3.Not(cond)
    CTX.stats['forks'] += 1
    if not CTX.lazy:
        r = feasible(c)
        if r == 'unsat':
            CTX.path.append(('infeasible', c))
            raise Abort('infeasible')
    CTX.path.append(c)
    CTX.decided[cond.get_id()] = d
    return d


def explore(fn, max_paths=20000):
    """run fn() once per feasible path (depth first); yields (result|exception, path)"""
    schedule = []
    count = 0
    while True:
        CTX.reset_path()
        CTX.schedule = list(schedule)
        ok = True
        try:
            res = fn()
        except Abort:
            ok = False
            res = None
        sched = CTX.schedule
        if ok:
            yield res
        count += 1
        if count >= max_paths:
            raise Unsupported('path budget exceeded (%d)' % max_paths)
        while sched and sched[-1] is False:
            sched.pop()
        if not sched:
            return
        sched[-1] = False
        schedule = sched


# ----------------------------------------------------------------------------
# scalars
# ----------------------------------------------------------------------------
class SB:
    __slots__ = ('e',)

    def __init__(self, e):
        if isinstance(e, SB):
            e = e.e
        elif isinstance(e, (bool, np.bool_)):
            e = z3.BoolVal(bool(e))
        elif isinstance(e, SR):
            e = (e != 0).e
        elif isinstance(e, (int, float, Fraction)):
            e = z3.BoolVal(bool(e))
        self.e = e

    def conc(self):
        if z3.is_true(self.e):
            return True
        if z3.is_false(self.e):
            return False
        s = z3.simplify(self.e)
        if z3.is_true(s):
            return True
        if z3.is_false(s):
            return False
        return None

    def __bool__(self):
        c = self.conc()
        if c is not None:
            return c
        k = self.e.get_id()
        if k in CTX.decided:
            return CTX.decided[k]
        if z3.is_not(self.e) and self.e.arg(0).get_id() in CTX.decided:
            return not CTX.decided[self.e.arg(0).get_id()]
        if CTX.resolve_guards and not CTX.lazy:
            c = implied(self.e)
            if c is not None:
                return c
        if CTX.lazy:
            c = order_implied(self.e)
            if c is not None:
                return c
        d = fork(self.e)
        if CTX.lazy:
            order_learn(self.e, d)
        return d

    def __and__(self, o):
        return SB(z3.And(self.e, SB(o).e))
    __rand__ = __and__

    def __or__(self, o):
        return SB(z3.Or(self.e, SB(o).e))
    __ror__ = __or__

    def __xor__(self, o):
        return SB(z3.Xor(self.e, SB(o).e))
    __rxor__ = __xor__

    def __invert__(self):
        return SB(z3.Not(self.e))

    def _as_real(self):
        c = self.conc()
        if c is not None:
            return SR(Fraction(int(c)))
        return SR(z3.If(self.e, z3.RealVal(1), z3.RealVal(0)))

    def __mul__(self, o):
        return self._as_real() * o
    __rmul__ = __mul__

    def __add__(self, o):
        return self._as_real() + o
    __radd__ = __add__

    def __sub__(self, o):
        return self._as_real() - o

    def __rsub__(self, o):
        return o - self._as_real()

    def __truediv__(self, o):
        return self._as_real() / o

    def __rtruediv__(self, o):
        return o / self._as_real()

    def __eq__(self, o):
        if isinstance(o, (SR, int, float, Fraction)) and not isinstance(o, bool):
            return self._as_real() == o
        return SB(self.e == SB(o).e)

    def __ne__(self, o):
        return ~(self == o)

    def __hash__(self):
        return hash(self.e)

    def __repr__(self):
        return f'SB({self.e})'


def _conc_num(x):
    return isinstance(x, (int, float, Fraction, np.integer, np.floating)) and not isinstance(x, (bool, np.bool_))


class SR:
    """real scalar: v is Fraction (concrete), float (+-inf only) or z3 ArithRef"""
    __slots__ = ('v',)

    def __init__(self, v):
        if isinstance(v, SR):
            v = v.v
        elif isinstance(v, SB):
            v = v._as_real().v
        elif isinstance(v, (bool, np.bool_)):
            v = Fraction(int(v))
        elif isinstance(v, (int, np.integer)):
            v = Fraction(int(v))
        elif isinstance(v, (float, np.floating)):
            v = float(v)
            if v != v:
                raise NaNProduced('NaN produced (inf - inf or 0 * inf)')
            v = Fraction(v) if abs(v) != float('inf') else v
        elif isinstance(v, SC):
            raise TypeError('complex to real')
        elif isinstance(v, (complex, np.complexfloating)):
            raise TypeError('complex to real')
        self.v = v

    @property
    def is_conc(self):
        return isinstance(self.v, (Fraction, float))

    @property
    def is_inf(self):
        return isinstance(self.v, float)

    @property
    def z(self):
        return zr(self.v)

    real = property(lambda s: s)
    imag = property(lambda s: SR(Fraction(0)))

    def conjugate(self):
        return self
    conj = conjugate

    def _bin(self, o, fc, fz):
        o = SR(o)
        if self.is_conc and o.is_conc:
            return SR(fc(self.v, o.v))
        if self.is_inf or o.is_inf:
            # finite symbolic +- inf
            a = self.v if self.is_inf else 0.0
            b = o.v if o.is_inf else 0.0
            return SR(fc(a, b))
        return SR(fz(self.z, o.z))

    def __add__(self, o):
        if isinstance(o, (SC, complex, np.complexfloating)):
            return SC(self) + o
        if _is_zero(o):
            return self
        if _is_zero(self):
            return SR(o)
        return self._bin(o, lambda a, b: a + b, lambda a, b: a + b)
    __radd__ = __add__

    def __sub__(self, o):
        if isinstance(o, (SC, complex, np.complexfloating)):
            return SC(self) - o
        if _is_zero(o):
            return self
        return self._bin(o, lambda a, b: a - b, lambda a, b: a - b)

    def __rsub__(self, o):
        if isinstance(o, (SC, complex, np.complexfloating)):
            return SC(o) - self
        return SR(o) - self

    def __mul__(self, o):
        if isinstance(o, (SC, complex, np.complexfloating)):
            return SC(self) * o
        if isinstance(o, SB):
            o = o._as_real()
        if _is_zero(o) or _is_zero(self):
            if (isinstance(o, SR) and o.is_inf) or self.is_inf:
                raise NaNProduced('0 * inf')
            return SR(Fraction(0))
        if _is_one(o):
            return self
        if _is_one(self):
            return SR(o)
        return self._bin(o, lambda a, b: a * b, lambda a, b: a * b)
    __rmul__ = __mul__

    def __truediv__(self, o):
        if isinstance(o, (SC, complex, np.complexfloating)):
            return SC(self) / o
        o = SR(o)
        if o.is_conc:
            if o.is_inf:
                return SR(Fraction(0))
            if o.v == 0:
                raise ZeroDivisionError('concrete division by zero')
            if self.is_conc:
                return SR(self.v / o.v)
            return SR(self.z * zr(1 / o.v))
        if _is_zero(self):
            # 0/d: IEEE gives 0 (or nan when d == 0); record divisor
            CTX.divisors.append(o.z)
            return SR(Fraction(0))
        r = reciprocal(o.z)
        if _is_one(self):
            return SR(r)
        return SR(self.z * r)

    def __rtruediv__(self, o):
        if isinstance(o, (SC, complex, np.complexfloating)):
            return SC(o) / self
        return SR(o) / self

    def __neg__(self):
        return SR(-self.v)

    def __pos__(self):
        return self

    def __pow__(self, p):
        if isinstance(p, SR) and p.is_conc:
            p = p.v
        if isinstance(p, (float, Fraction, np.floating)) and int(p) == p:
            p = int(p)
        if isinstance(p, (int, np.integer)):
            p = int(p)
            if p == 0:
                return SR(1)
            if p < 0:
                return SR(1) / (self ** (-p))
            r = self
            for _ in range(p - 1):
                r = r * self
            return r
        if p == 0.5 or p == Fraction(1, 2):
            return self.sqrt()
        if isinstance(p, (float, Fraction)):
            # x**p = exp(p*log x)
            return (self.log() * SR(p)).exp()
        raise Unsupported(('pow', p))

    def __rpow__(self, b):
        # b ** self  for concrete positive base
        b = SR(b)
        if not b.is_conc or b.v <= 0:
            raise Unsupported(('rpow', b))
        if self.is_conc and not self.is_inf and self.v.denominator == 1:
            return SR(b.v ** int(self.v))
        if b.v == 10:
            return self.pow10()
        return (self * SR(b).log()).exp()

    def __abs__(self):
        if self.is_conc:
            return SR(abs(self.v))
        return ite(self >= 0, self, -self)

    def _cmp(self, o, fc, fz):
        if isinstance(o, SB):
            o = o._as_real()
        o = SR(o)
        if self.is_conc and o.is_conc:
            return SB(fc(self.v, o.v))
        if self.is_inf or o.is_inf:
            a = self.v if self.is_inf else 0.0
            b = o.v if o.is_inf else 0.0
            return SB(fc(a, b))
        return SB(fz(self.z, o.z))

    def __lt__(self, o): return self._cmp(o, lambda a, b: a < b, lambda a, b: a < b)
    def __le__(self, o): return self._cmp(o, lambda a, b: a <= b, lambda a, b: a <= b)
    def __gt__(self, o): return self._cmp(o, lambda a, b: a > b, lambda a, b: a > b)
    def __ge__(self, o): return self._cmp(o, lambda a, b: a >= b, lambda a, b: a >= b)

    def __eq__(self, o):
        if isinstance(o, SC):
            return o == self
        if isinstance(o, (complex, np.complexfloating)):
            return SC(self) == o
        if o is None or isinstance(o, str):
            return SB(False)
        return self._cmp(o, lambda a, b: a == b, lambda a, b: a == b)

    def __ne__(self, o): return ~(self == o)
    def __hash__(self): return hash(str(self.v))

    # transcendental functions: Ackermannised fresh variables + axioms
    def sqrt(self):
        if self.is_conc:
            if self.v < 0:
                raise Unsupported('sqrt of negative constant')
            n, d = self.v.numerator, self.v.denominator
            rn, rd = math.isqrt(n), math.isqrt(d)
            if rn * rn == n and rd * rd == d:
                return SR(Fraction(rn, rd))
        k = key_of(self.z)
        if k not in CTX.sqrt_reg:
            s = CTX.fresh('sqrt')
            CTX.fact(s >= 0, simple=True)
            CTX.fact(s * s == self.z)
            CTX.sqrt_reg[k] = (self.z, s)
        return SR(CTX.sqrt_reg[k][1])

    def exp(self):
        if self.is_conc:
            if self.is_inf:
                if self.v < 0:
                    return SR(0)
                raise Unsupported('exp(+inf)')
            if self.v == 0:
                return SR(1)
        k = key_of(self.z)
        if k not in CTX.exp_reg:
            e = CTX.fresh('exp')
            CTX.fact(e > 0, simple=True)
            CTX.fact(z3.Implies(self.z >= 0, e >= 1), simple=True)
            CTX.fact(z3.Implies(self.z <= 0, e <= 1), simple=True)
            CTX.exp_reg[k] = (self.z, e)
        return SR(CTX.exp_reg[k][1])

    def log(self):
        if self.is_conc and self.v == 1:
            return SR(0)
        k = key_of(self.z)
        if k not in CTX.log_reg:
            l = CTX.fresh('log')
            CTX.log_reg[k] = (self.z, l)
        return SR(CTX.log_reg[k][1])

    def log10(self):
        return uf_apply('log10', self)

    def pow10(self):
        return uf_apply('pow10', self)

    def cos(self):
        c, s = cos_sin(self.z)
        return SR(c)

    def sin(self):
        c, s = cos_sin(self.z)
        return SR(s)

    def __float__(self):
        if self.is_conc:
            return float(self.v)
        raise TypeError('symbolic real has no float value')

    def __int__(self):
        if self.is_conc and not self.is_inf and self.v.denominator == 1:
            return int(self.v)
        raise TypeError('symbolic real has no int value')
    __index__ = __int__

    def __repr__(self):
        return f'SR({self.v})'


def reciprocal(d):
    """purified division: one reciprocal variable per canonical divisor term"""
    k = key_of(d)
    if k in CTX.rec_reg:
        return CTX.rec_reg[k]
    r = CTX.fresh('rec')
    nz = True if CTX.assume_defined else (implied(d != 0) if CTX.resolve_guards else None)
    if nz is True:
        CTX.fact(r * d == 1)
        pos = implied(d > 0) if not CTX.assume_defined else None
        if pos is True:
            CTX.fact(r > 0, simple=True)
    else:
        CTX.fact(z3.Or(d == 0, r * d == 1))
    CTX.divisors.append(d)
    CTX.rec_reg[k] = r
    return r


UF_DECL = {}


def uf_apply(name, x):
    """uninterpreted unary function (memoised by canonical argument)"""
    x = SR(x)
    if name not in UF_DECL:
        UF_DECL[name] = z3.Function(name, z3.RealSort(), z3.RealSort())
    k = (name, key_of(x.z))
    if k not in CTX.uf_reg:
        v = CTX.fresh(name)
        CTX.uf_reg[k] = (x.z, v)
    return SR(CTX.uf_reg[k][1])


def cos_sin(t):
    """t: z3 term that is a signed sum of registered angle variables"""
    t = z3.simplify(t, som=True, sort_sums=True)
    for (th, c, s) in CTX.ang_reg.values():
        if t.eq(th):
            return c, s
        if z3.simplify(t + th, som=True, sort_sums=True).eq(z3.RealVal(0)):
            return c, -s
    # difference / sum of two angles
    items = list(CTX.ang_reg.values())
    for (t1, c1, s1) in items:
        for (t2, c2, s2) in items:
            if z3.simplify(t - (t1 - t2), som=True, sort_sums=True).eq(z3.RealVal(0)):
                return c1 * c2 + s1 * s2, s1 * c2 - c1 * s2
            if z3.simplify(t - (t1 + t2), som=True, sort_sums=True).eq(z3.RealVal(0)):
                return c1 * c2 - s1 * s2, s1 * c2 + c1 * s2
    raise Unsupported('cos/sin of %s' % t)


def _is_zero(x):
    if isinstance(x, SR):
        return x.is_conc and x.v == 0
    if isinstance(x, SC):
        return _is_zero(x.re) and _is_zero(x.im)
    if isinstance(x, (complex, np.complexfloating)):
        return x == 0
    return _conc_num(x) and x == 0


def _is_one(x):
    if isinstance(x, SR):
        return x.is_conc and x.v == 1
    return _conc_num(x) and x == 1


_IMZERO = {}


class SC:
    __slots__ = ('re', 'im')

    def __init__(self, re, im=0):
        if isinstance(re, SC):
            re, im = re.re, re.im
        elif isinstance(re, (complex, np.complexfloating)):
            re, im = re.real, re.imag
        self.re = SR(re)
        self.im = SR(im)

    real = property(lambda s: s.re)
    imag = property(lambda s: s.im)

    def conjugate(self):
        return SC(self.re, -self.im)
    conj = conjugate

    def __add__(self, o):
        o = SC(o)
        return SC(self.re + o.re, self.im + o.im)
    __radd__ = __add__

    def __sub__(self, o):
        o = SC(o)
        return SC(self.re - o.re, self.im - o.im)

    def __rsub__(self, o):
        return SC(o) - self

    def __mul__(self, o):
        if isinstance(o, SB):
            o = o._as_real()
        if isinstance(o, SR) or _conc_num(o):
            return SC(self.re * o, self.im * o)
        o = SC(o)
        return SC(self.re * o.re - self.im * o.im, self.re * o.im + self.im * o.re)
    __rmul__ = __mul__

    def __truediv__(self, o):
        if isinstance(o, SR) or _conc_num(o):
            return SC(self.re / o, self.im / o)
        o = SC(o)
        if _is_zero(o.im):
            return SC(self.re / o.re, self.im / o.re)
        d = o.re * o.re + o.im * o.im
        n = self * o.conjugate()
        return SC(n.re / d, n.im / d)

    def __rtruediv__(self, o):
        return SC(o) / self

    def __neg__(self):
        return SC(-self.re, -self.im)

    def __pos__(self):
        return self

    def _im_zero(self):
        if _is_zero(self.im):
            return True
        if self.im.is_conc:
            return False
        if z3.simplify(self.im.z, som=True, sort_sums=True).eq(z3.RealVal(0)):
            return True
        k = self.im.z.get_id()
        if k not in _IMZERO:
            r, _ = solve(self.im.z != 0, timeout_ms=3000)
            _IMZERO[k] = (self.im.z, r == 'unsat')
        return _IMZERO[k][1]

    def __abs__(self):
        if self._im_zero():
            return abs(self.re)
        return (self.re * self.re + self.im * self.im).sqrt()

    def __pow__(self, p):
        if isinstance(p, SR) and p.is_conc:
            p = p.v
        if isinstance(p, (float, Fraction)) and int(p) == p:
            p = int(p)
        if not (isinstance(p, (int, np.integer)) and p >= 0):
            raise Unsupported(('complex pow', p))
        if p == 0:
            return SC(1)
        r = self
        for _ in range(int(p) - 1):
            r = r * self
        return r

    def __eq__(self, o):
        o = SC(o)
        return (self.re == o.re) & (self.im == o.im)

    def __ne__(self, o):
        return ~(self == o)

    def __hash__(self):
        return hash((self.re, self.im))

    def exp(self):
        m = self.re.exp()
        if _is_zero(self.im):
            return SC(m)
        c, s = cos_sin(self.im.z)
        return SC(m * SR(c), m * SR(s))

    def sqrt(self):
        if self._im_zero():
            ok = self.re >= 0
            if bool(ok):
                return SC(self.re.sqrt())
            return SC(0, (-self.re).sqrt())
        raise Unsupported('complex sqrt')

    def __repr__(self):
        return f'SC({self.re.v}, {self.im.v})'


def ite(c, a, b):
    """scalar if-then-else with guard resolution"""
    if isinstance(c, SB):
        cc = c.conc()
        if cc is None and CTX.resolve_guards:
            cc = implied(c.e)
    else:
        cc = bool(c)
    if cc is True:
        return a
    if cc is False:
        return b
    if isinstance(a, SC) or isinstance(b, SC) or isinstance(a, complex) or isinstance(b, complex):
        a, b = SC(a), SC(b)
        return SC(ite(c, a.re, b.re), ite(c, a.im, b.im))
    if isinstance(a, SB) or isinstance(b, SB):
        return SB(z3.If(c.e, SB(a).e, SB(b).e))
    a, b = SR(a), SR(b)
    if a.is_inf or b.is_inf:
        raise Unsupported('inf in symbolic ite')
    return SR(z3.If(c.e, a.z, b.z))


# ----------------------------------------------------------------------------
# axiom schemas instantiated over the registered transcendental terms
# ----------------------------------------------------------------------------
def _exp_grid():
    """sound rational bounds exp(c)*(1-1e-9) <= e^c <= exp(c)*(1+1e-9) on a grid of integers c"""
    out = []
    for c in (-745, -720, -709, -700, -400, -100, -50, -20, -10, -5, -2, -1, 0, 1, 2, 5, 10, 20, 50, 100, 400, 700):
        if c == 0:
            lo = hi = Fraction(1)
        else:
            v = Fraction(math.exp(c))
            lo, hi = v * (1 - Fraction(1, 10**9)), v * (1 + Fraction(1, 10**9))
        out.append((z3.RealVal(c), z3.RealVal(str(lo)), z3.RealVal(str(hi))))
    return out


EXP_GRID = _exp_grid()


def exp_axioms(products=True):
    ax = []
    items = list(CTX.exp_reg.values())
    for (a, ea) in items:
        for c, lo, hi in EXP_GRID:
            ax.append(z3.Implies(a >= c, ea >= lo))
            ax.append(z3.Implies(a <= c, ea <= hi))
    for (a, ea), (b, eb) in itertools.combinations(items, 2):
        ax.append(z3.Implies(a <= b, ea <= eb))
        ax.append(z3.Implies(a >= b, ea >= eb))
    if products:
        # exp(a)exp(b') = exp(a')exp(b) when a-b == a'-b' syntactically
        buckets = {}
        for (a, ea), (b, eb) in itertools.permutations(items, 2):
            d = key_of(a - b)
            buckets.setdefault(d, []).append((ea, eb))
        for d, prs in buckets.items():
            for (e1, e2), (e3, e4) in itertools.combinations(prs, 2):
                ax.append(e1 * e4 == e2 * e3)
        if len(items) <= 8:
            # few terms: also the conditional form for differences that are equal only semantically
            prs = [((a, ea), (b, eb)) for (a, ea), (b, eb) in itertools.combinations(items, 2)]
            for ((a, ea), (b, eb)), ((c, ec), (d2, ed)) in itertools.combinations(prs, 2):
                if key_of(a - b) != key_of(c - d2):
                    ax.append(z3.Implies(a - b == c - d2, ea * ed == eb * ec))
                    ax.append(z3.Implies(a - b == d2 - c, ea * ec == eb * ed))
    return ax


def log_axioms():
    ax = []
    items = list(CTX.log_reg.values())
    for (a, la) in items:
        ax.append(z3.Implies(a == 1, la == 0))
        ax.append(z3.Implies(z3.And(a > 0, a < 1), la < 0))
        ax.append(z3.Implies(a > 1, la > 0))
    for (a, la), (b, lb) in itertools.combinations(items, 2):
        ax.append(z3.Implies(z3.And(a > 0, b > 0, a <= b), la <= lb))
        ax.append(z3.Implies(z3.And(a > 0, b > 0, a >= b), la >= lb))
        ax.append(z3.Implies(a == b, la == lb))
    return ax


def uf_congruence():
    ax = []
    by = {}
    for (name, _k), (a, v) in CTX.uf_reg.items():
        by.setdefault(name, []).append((a, v))
    for name, items in by.items():
        for (a, va), (b, vb) in itertools.combinations(items, 2):
            ax.append(z3.Implies(a == b, va == vb))
    return ax
