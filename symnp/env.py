"""Harness environment: one harness body runs (a) symbolically on SymArrays with obligations
decided by z3 and (b) concretely on plain NumPy floats (replay of solver models, co-simulation).
"""
from fractions import Fraction
import fnmatch
import hashlib
import json
import math
import os
import sys
import time
import traceback

import numpy as np

REL_TOL = 1e-6
ABS_TOL = 1e-9


class OutsidePre(BaseException):
    """concrete run violated a precondition (replay candidate is outside the domain)"""


class Obl:
    __slots__ = ('label', 'verdict', 'secs', 'nontrivial', 'path', 'detail')

    def __init__(self, label, verdict, secs=0.0, nontrivial=True, path=0, detail=None):
        self.label, self.verdict, self.secs, self.nontrivial, self.path, self.detail = label, verdict, secs, nontrivial, path, detail

    def asdict(self):
        return dict(label=self.label, verdict=self.verdict, secs=round(self.secs, 4), nontrivial=self.nontrivial,
                    path=self.path, detail=self.detail)


def _is_symarr(x):
    return type(x).__name__ == 'SymArray'


class Env:
    def __init__(self, mode, values=None, seed=0, timeout_ms=20000, pin_tries=3):
        self.mode = mode                   # 'sym' | 'conc'
        self.sym = mode == 'sym'
        self.values = values or {}
        self.rng = np.random.RandomState(seed)
        self.seed = seed
        self.timeout_ms = timeout_ms
        self.pin_tries = pin_tries
        self.obls = []
        self.candidates = []               # dict(label, values, kind)
        self.inputs = {}                   # name -> (kind, shape, array)   this path
        self.path_no = 0
        self.assumptions = []
        self.failed = []                   # concrete mode: failing labels
        self.conc_inputs = {}
        self._axioms_cache = None
        self.use_exp_products = True
        self.extra_axioms = []
        self.checked_labels = 0
        self.bad_labels = {}
        self.deadline = None
        self.bounds = {}
        self.full_pin_tries = 30
        self.max_bad_per_label = 3
        self._declared = set()             # inputs whose bounds are already in CTX.pre (persist over paths)

    # ------------------------------------------------------------------ inputs
    def _draw(self, shape, lo, hi, kind):
        lo = -2.0 if lo is None else lo
        hi = 2.0 if hi is None else hi
        if lo > 0 and hi / lo > 1e3:
            return np.exp(self.rng.uniform(np.log(lo), np.log(hi), size=shape))
        return self.rng.uniform(lo, hi, size=shape)

    def real(self, name, shape, lo=None, hi=None, dtype=np.float64, integer=False):
        shape = tuple(shape)
        if self.sym:
            import z3
            from .array import sym_real
            from .core import CTX, zr
            a = sym_real(name, shape, dtype if not integer else np.int64)
            if name not in self._declared:
                self._declared.add(name)
                for e in a._a.ravel():
                    if lo is not None:
                        CTX.pre.append(e.z >= zr(lo))
                    if hi is not None:
                        CTX.pre.append(e.z <= zr(hi))
                    if integer:
                        iv = z3.Int('I' + str(e.z))
                        CTX.pre.append(e.z == z3.ToReal(iv))
            self.inputs[name] = ('int' if integer else 'real', shape, a)
            self.bounds[name] = (lo, hi)
            return a
        if name in self.values:
            v = np.array(self.values[name], dtype=np.float64).reshape(shape)
        else:
            v = self._draw(shape, lo, hi, 'real')
            if integer:
                v = np.floor(v)
        v = v.astype(np.int64) if integer else v.astype(dtype)
        self.conc_inputs[name] = v
        return v.copy()

    def cplx(self, name, shape, lo=None, hi=None, dtype=np.complex128):
        shape = tuple(shape)
        if self.sym:
            from .array import sym_complex
            from .core import CTX, zr
            a = sym_complex(name, shape, dtype)
            if name not in self._declared:
                self._declared.add(name)
                for e in a._a.ravel():
                    for part in (e.re, e.im):
                        if lo is not None:
                            CTX.pre.append(part.z >= zr(lo))
                        if hi is not None:
                            CTX.pre.append(part.z <= zr(hi))
            self.inputs[name] = ('cplx', shape, a)
            self.bounds[name] = (lo, hi)
            return a
        if name in self.values:
            v = to_complex(self.values[name], shape)
        else:
            v = self._draw(shape, lo, hi, 'real') + 1j * self._draw(shape, lo, hi, 'real')
        v = v.astype(dtype)
        self.conc_inputs[name] = v
        return v.copy()

    def boolean(self, name, shape, fork=False):
        """symbolic booleans; fork=True decides every entry by path forking (all 2^n values explored,
        entries are concrete on each path)"""
        shape = tuple(shape)
        if self.sym:
            from .array import sym_bool, SymArray
            from .core import SB
            a = sym_bool(name, shape)
            self.inputs[name] = ('bool', shape, a)
            if fork:
                c = np.empty(shape, dtype=object)
                for idx in np.ndindex(*shape):
                    c[idx] = SB(bool(a._a[idx]))
                return SymArray(c, bool)
            return a
        if name in self.values:
            v = np.array(self.values[name], dtype=bool).reshape(shape)
        else:
            v = self.rng.uniform(size=shape) < 0.6
        self.conc_inputs[name] = v
        return v.copy()

    def choice(self, name, n):
        """nondeterministic choice of an index in range(n): explored exhaustively by forking (symbolic mode), taken from the
        replayed values or drawn at random (concrete mode)"""
        if n <= 1:
            return 0
        if self.sym:
            from .array import sym_bool
            a = sym_bool(name, (n - 1,))
            self.inputs[name] = ('bool', (n - 1,), a)
            for i in range(n - 1):
                if bool(a._a[i]):
                    return i
            return n - 1
        if name in self.values:
            bits = list(np.array(self.values[name], dtype=bool).reshape(-1))
            for i, b in enumerate(bits):
                if b:
                    return i
            return n - 1
        v = int(self.rng.randint(n))
        self.conc_inputs[name] = np.array([i == v for i in range(n - 1)])
        return v

    def readonly(self, arr):
        """mark an input read-only exactly like a caller's read-only ndarray"""
        if _is_symarr(arr):
            arr._a.flags.writeable = False
        else:
            arr.flags.writeable = False
        return arr

    # ------------------------------------------------------------------ scalars helpers
    def el(self, arr, idx=()):
        """scalar element (SR/SC/SB in sym mode, python number in conc mode)"""
        if _is_symarr(arr):
            return arr._a[idx]
        a = np.asarray(arr)
        v = a[idx]
        return v.item() if hasattr(v, 'item') else v

    def exp(self, x):
        return x.exp() if hasattr(x, 'exp') else math.exp(x)

    def log(self, x):
        return x.log() if hasattr(x, 'log') else (math.log(x) if x > 0 else float('-inf') if x == 0 else float('nan'))

    def sqrt(self, x):
        return x.sqrt() if hasattr(x, 'sqrt') else math.sqrt(x)

    def conj(self, x):
        return x.conjugate()

    def re(self, x):
        return x.real

    def im(self, x):
        return x.imag

    def abs2(self, x):
        return x.real * x.real + x.imag * x.imag

    def const(self, x):
        return x

    # ------------------------------------------------------------------ assumptions
    def assume(self, cond, note=None):
        if note and note not in self.assumptions:
            self.assumptions.append(note)
        if self.sym:
            from .core import CTX, SB
            for c in self._flat_bools(cond):
                e = SB(c).e
                if e.get_id() not in self._declared:
                    self._declared.add(e.get_id())
                    CTX.pre.append(e)
            return
        ok = bool(np.all(np.asarray(cond)))
        if not ok:
            raise OutsidePre(note or 'assumption violated')

    def assume_fact(self, cond, note=None):
        """path assumption on an intermediate quantity that is also usable for guard resolution"""
        self.assume_path(cond, note)
        if self.sym:
            from .core import CTX, SB
            for c in self._flat_bools(cond):
                CTX.simple.append(SB(c).e)

    def assume_divisors_nonzero(self, note):
        """from here on every symbolic divisor met on this path is assumed non-zero (explicit assumption,
        listed in the evidence); concretely: a zero divisor shows up as inf/nan and fails isfinite/eq"""
        if note not in self.assumptions:
            self.assumptions.append(note)
        if self.sym:
            from .core import CTX
            CTX.assume_defined = True

    def assume_path(self, cond, note=None):
        """assumption on intermediate values of this path (not a global precondition)"""
        if note and note not in self.assumptions:
            self.assumptions.append(note)
        if self.sym:
            from .core import CTX, SB
            for c in self._flat_bools(cond):
                CTX.path.append(SB(c).e)
            return
        if not bool(np.all(np.asarray(cond))):
            raise OutsidePre(note or 'assumption violated')

    def _flat_bools(self, cond):
        if _is_symarr(cond):
            return list(cond._a.ravel())
        if isinstance(cond, (list, tuple)):
            out = []
            for c in cond:
                out += self._flat_bools(c)
            return out
        if isinstance(cond, np.ndarray):
            return list(cond.ravel())
        return [cond]

    # ------------------------------------------------------------------ obligations
    def _axioms(self):
        from . import core, stubs
        from .core import CTX
        key = (len(CTX.exp_reg), len(CTX.log_reg), len(CTX.uf_reg), len(self.extra_axioms))
        if self._axioms_cache is None or self._axioms_cache[0] != key:
            ax = core.exp_axioms(products=self.use_exp_products) + core.log_axioms() + core.uf_congruence() + stubs.spline_axioms() + list(self.extra_axioms)
            self._axioms_cache = (key, ax)
        return self._axioms_cache[1]

    def _pairs(self, a, b):
        """broadcast a,b -> list of (index, ea, eb) scalars"""
        if self.sym:
            from .array import lift
            A, B = lift(a), lift(b)
            ab, bb = np.broadcast_arrays(A._a, B._a)
            return [(idx, ab[idx], bb[idx]) for idx in np.ndindex(ab.shape)]
        A, B = np.asarray(a), np.asarray(b)
        ab, bb = np.broadcast_arrays(A, B)
        return [(idx, ab[idx], bb[idx]) for idx in np.ndindex(ab.shape)]

    def shape_is(self, label, arr, shape):
        got = tuple(arr.shape)
        self._record_plain(label + ':shape', got == tuple(shape), detail='%s vs %s' % (got, tuple(shape)))

    def _record_plain(self, label, ok, detail=None):
        """a concrete (non-solver) fact about the run, e.g. a shape, a dtype or a mapping that is fully
        determined by the path; a failing fact is a violation iff the path is feasible (solver query)"""
        if self.sym:
            if ok:
                self.obls.append(Obl(label, 'unsat', 0.0, False, self.path_no, detail))
            else:
                t0 = time.time()
                r, vals = self.path_model()
                # an infeasible path proves the fact vacuously
                self.obls.append(Obl(label, 'sat' if r == 'sat' else ('unsat' if r == 'unsat' else r), time.time() - t0, True, self.path_no, detail))
                if r == 'sat':
                    self.candidates.append(dict(label=label, values=vals, kind='concrete-fact', path=self.path_no))
        else:
            self.checked_labels += 1
            if not ok:
                self.failed.append((label, detail))

    def eq(self, label, a, b, rtol=REL_TOL, atol=ABS_TOL):
        if not self.sym:
            A, B = np.asarray(a), np.asarray(b)
            try:
                A, B = np.broadcast_arrays(A, B)
            except ValueError:
                self.failed.append((label, 'shape %s vs %s' % (A.shape, B.shape)))
                return
            self.checked_labels += 1
            if A.dtype == bool:
                A = A.astype(float)
            if B.dtype == bool:
                B = B.astype(float)
            with np.errstate(all='ignore'):
                bad = ~(np.abs(A - B) <= atol + rtol * np.maximum(np.abs(A), np.abs(B)))
                bad |= ~np.isfinite(A) | ~np.isfinite(B)
            if np.any(bad):
                i = tuple(int(x) for x in np.argwhere(bad)[0])
                self.failed.append((label, 'at %s: %r != %r' % (i, A[i].item() if A.ndim else A.item(), B[i].item() if B.ndim else B.item())))
            return
        import z3
        from .core import SC, SR, SB
        sa, sb = np.shape(a) if not _is_symarr(a) else a.shape, np.shape(b) if not _is_symarr(b) else b.shape
        try:
            pairs = self._pairs(a, b)
        except ValueError:
            self._record_plain(label + ':shape', False, detail='%s vs %s' % (sa, sb))
            return
        for idx, x, y in pairs:
            if isinstance(x, SB) or isinstance(y, SB):
                goal = SB(x).e == SB(y).e
                triv = z3.is_true(z3.simplify(goal))
            else:
                x, y = SC(x), SC(y)
                dre = z3.simplify(x.re.z - y.re.z, som=True, sort_sums=True)
                dim = z3.simplify(x.im.z - y.im.z, som=True, sort_sums=True)
                triv = dre.eq(z3.RealVal(0)) and dim.eq(z3.RealVal(0))
                identical = x.re.z.eq(y.re.z) and x.im.z.eq(y.im.z)
                if triv and not (x.re.is_conc and x.im.is_conc):
                    # two symbolic (non-constant) terms from two executions, equal in z3's normal form (sum of monomials,
                    # sorted sums; pointer-identical after hash-consing when `identical`): decided work, not a constant check
                    self.obls.append(Obl('%s%s' % (label, list(idx) if idx else ''), 'unsat', 0.0, True, self.path_no,
                                         detail='identical terms' if identical else 'z3 normal form'))
                    continue
                parts = []
                if not dre.eq(z3.RealVal(0)):
                    parts.append(x.re.z == y.re.z)
                if not dim.eq(z3.RealVal(0)):
                    parts.append(x.im.z == y.im.z)
                goal = z3.And(*parts) if parts else z3.BoolVal(True)
            self._decide('%s%s' % (label, list(idx) if idx else ''), goal, triv)

    def le(self, label, a, b, strict=False, atol=ABS_TOL, rtol=REL_TOL):
        if not self.sym:
            A, B = np.broadcast_arrays(np.asarray(a, dtype=float), np.asarray(b, dtype=float))
            self.checked_labels += 1
            slack = atol + rtol * np.maximum(np.abs(A), np.abs(B))
            bad = ~(A <= B + slack) if not strict else ~(A < B + slack)
            if np.any(bad):
                i = tuple(int(x) for x in np.argwhere(bad)[0])
                self.failed.append((label, 'at %s: %r !<= %r' % (i, A[i].item() if A.ndim else A.item(), B[i].item() if B.ndim else B.item())))
            return
        import z3
        from .core import SR
        for idx, x, y in self._pairs(a, b):
            x, y = SR(x), SR(y)
            goal = (x < y).e if strict else (x <= y).e
            triv = z3.is_true(z3.simplify(goal))
            self._decide('%s%s' % (label, list(idx) if idx else ''), goal, triv)

    def true(self, label, cond):
        if not self.sym:
            self.checked_labels += 1
            if not bool(np.all(np.asarray(cond))):
                self.failed.append((label, 'false'))
            return
        import z3
        from .core import SB
        for i, c in enumerate(self._flat_bools(cond)):
            goal = SB(c).e
            self._decide('%s[%d]' % (label, i), goal, z3.is_true(z3.simplify(goal)))

    def prove_and_use(self, label, cond):
        """decide cond now; when it holds it becomes a (simple) fact for the rest of the path, so
        that guards in the code under test that depend on it resolve (lemma injection)"""
        if not self.sym:
            self.true(label, cond)
            return
        import z3
        from .core import CTX, SB
        for i, c in enumerate(self._flat_bools(cond)):
            goal = SB(c).e
            r = self._decide('%s[%d]' % (label, i), goal, z3.is_true(z3.simplify(goal)))
            if r == 'unsat':
                CTX.fact(goal, simple=True)

    def lemma(self, label, hyps, goal):
        """abstract lemma over fresh variables: decided from `hyps` alone (no facts of the run);
        a proved lemma is a generalisation and sound to compose with per-entry identities"""
        if not self.sym:
            return
        import z3
        from . import core
        t0 = time.time()
        s = z3.Solver()
        s.set('timeout', int(self.timeout_ms))
        for h in hyps:
            s.add(h)
        s.add(z3.Not(goal))
        r = str(s.check())
        core.CTX.stats['queries'] += 1
        core.CTX.stats['solver_s'] += time.time() - t0
        self.obls.append(Obl('lemma:' + label, r, time.time() - t0, True, self.path_no))
        if r == 'sat':
            self.candidates.append(dict(label='lemma:' + label, values=None, kind='lemma', path=self.path_no))

    def isfinite(self, label, arr):
        """no NaN/Inf: in real arithmetic this is definedness of every division that produced arr;
        concretely np.isfinite"""
        if not self.sym:
            self.checked_labels += 1
            if not bool(np.all(np.isfinite(np.asarray(arr)))):
                self.failed.append((label, 'non-finite'))
            return
        # symbolic reals are finite; division definedness is checked by check_divisors()

    def check_divisors(self, label='defined'):
        """every symbolic divisor met so far on this path is non-zero"""
        if not self.sym:
            return
        import z3
        from .core import CTX
        seen = set()
        for d in list(CTX.divisors):
            k = d.get_id()
            if k in seen:
                continue
            seen.add(k)
            self._decide('%s:div%d' % (label, len(seen)), d != 0, False, light=True)
        CTX.divisors.clear()

    def _decide(self, label, goal, trivial=False, light=False):
        import z3
        from . import core
        from .core import CTX
        t0 = time.time()
        if trivial:
            self.obls.append(Obl(label, 'unsat', 0.0, False, self.path_no))
            return 'unsat'
        base = label.split('[')[0]
        if self.deadline is not None and time.time() > self.deadline:
            raise StopCase('case budget exceeded')
        if self.bad_labels.get(base, 0) >= self.max_bad_per_label:
            # enough candidates / undecided instances of this obligation family: do not burn solver time
            self.obls.append(Obl(label, 'skipped', 0.0, True, self.path_no))
            return 'skipped'
        neg = z3.Not(goal)
        ax = self._axioms()
        r, m = core.decide(neg, extra=ax, timeout_ms=min(self.timeout_ms, 10000) if light else self.timeout_ms)
        kind = 'obligation'
        if r == 'unknown' and not light:
            # candidate from the linear abstraction (monomials as atoms): cheap model, replay decides
            r3, m3 = core.solve_linear(neg, extra=(), timeout_ms=3000, want_model=True)
            if r3 == 'sat':
                self._candidate(label, m3, kind='abstract-model')
            if self.pin_tries:
                r2, m2 = self._pinned(neg, ax)
                if r2 == 'sat':
                    r, m = r2, m2
        self.obls.append(Obl(label, r, time.time() - t0, True, self.path_no))
        if r != 'unsat':
            self.bad_labels[base] = self.bad_labels.get(base, 0) + 1
        if r == 'sat':
            self._candidate(label, m, kind=kind)
        return r

    def _pinned(self, neg, ax, tries=None):
        """unknown -> ask the solver again with a random subset of the inputs pinned to random values of
        their domain (products of inputs become linear); a satisfying assignment is still found and
        certified by the solver for the full formula"""
        import z3
        from fractions import Fraction
        from . import core
        from .core import CTX
        tries = self.pin_tries * 3 if tries is None else tries
        scal = []
        for name, (kind, shape, arr) in self.inputs.items():
            lo, hi = self.bounds.get(name, (None, None))
            lo = -2.0 if lo is None else lo
            hi = 2.0 if hi is None else hi
            for e in arr._a.ravel():
                if kind == 'cplx':
                    scal += [(e.re.z, lo, hi, False), (e.im.z, lo, hi, False)]
                elif kind in ('real', 'int'):
                    scal.append((e.z, lo, hi, kind == 'int'))
        if not scal:
            return 'unknown', None
        rng = np.random.RandomState(1234 + len(self.obls))
        full = self.full_pin_tries
        for t in range(tries + full):
            frac = (0.5, 0.75, 0.9)[t % 3] if t < tries else 1.1
            pins = []
            for (v, lo, hi, integer) in scal:
                if rng.uniform() < frac:
                    if lo > 0 and hi / lo > 1e3:
                        x = float(np.exp(rng.uniform(np.log(lo), np.log(hi))))
                    else:
                        x = rng.uniform(lo, hi)
                    val = Fraction(int(round(x))) if integer else (Fraction(x).limit_denominator(64) if abs(x) >= 0.05 else Fraction(x).limit_denominator(10**9))
                    if val < Fraction(lo).limit_denominator(10**9) or val > Fraction(hi).limit_denominator(10**9):
                        val = Fraction(lo + hi).limit_denominator(64) / 2
                    pins.append(v == z3.RealVal(str(val)))
            r, m = core.solve(neg, extra=list(ax) + pins, timeout_ms=3000 if t < tries else 1500, use_cone=False)
            if r == 'sat':
                return r, m
        return 'unknown', None

    def _candidate(self, label, model, kind):
        vals = self.model_values(model) if model is not None else None
        self.candidates.append(dict(label=label, values=vals, kind=kind, path=self.path_no))

    def model_values(self, model):
        """inputs of a solver model as plain lists; variables the (sliced) query did not constrain get a
        default inside their declared bounds instead of the model-completion value 0"""
        import z3
        decls = set(d.name() for d in model.decls())

        def val(term, lo, hi, idx):
            if z3.is_const(term) and term.decl().name() not in decls:
                lo_ = -1.0 if lo is None else lo
                hi_ = 1.0 if hi is None else hi
                return lo_ + (hi_ - lo_) * (0.31 + 0.07 * (sum(idx) % 5))
            return _z3_float(model.eval(term, model_completion=True))
        out = {}
        for name, (kind, shape, arr) in self.inputs.items():
            lo, hi = self.bounds.get(name, (None, None))
            if kind == 'bool':
                v = np.zeros(shape, dtype=bool)
                for idx in np.ndindex(*shape):
                    v[idx] = z3.is_true(model.eval(arr._a[idx].e, model_completion=True))
                out[name] = v.tolist()
            elif kind == 'cplx':
                v = np.zeros(shape, dtype=complex)
                for idx in np.ndindex(*shape):
                    e = arr._a[idx]
                    v[idx] = complex(val(e.re.z, lo, hi, idx), val(e.im.z, lo, hi, idx + (1,)))
                out[name] = [[x.real, x.imag] for x in v.ravel()]
            else:
                v = np.zeros(shape, dtype=float)
                for idx in np.ndindex(*shape):
                    v[idx] = val(arr._a[idx].z, lo, hi, idx)
                if kind == 'int':
                    v = np.round(v)
                out[name] = v.tolist()
        return out

    def path_model(self):
        """a model of pre & facts & path (for exceptions raised by the code under test / failed concrete
        facts): full query first, then the linear abstraction (candidate only; replay decides)"""
        import z3
        from . import core
        r, m = core.solve(z3.BoolVal(True), timeout_ms=min(self.timeout_ms, 4000), use_cone=False)
        if r == 'sat':
            return r, self.model_values(m)
        if r == 'unsat':
            return r, None
        r2, m2 = core.solve_linear(z3.BoolVal(True), timeout_ms=3000, want_model=True)
        if r2 == 'unsat':
            return 'unsat', None
        r3, m3 = self._pinned(z3.BoolVal(True), [], tries=9)
        if r3 == 'sat':
            return 'sat', self.model_values(m3)
        return r, None


class StopCase(BaseException):
    """enough candidates collected for this case"""


def _z3_float(v):
    import z3
    if z3.is_rational_value(v):
        return float(Fraction(v.numerator_as_long(), v.denominator_as_long()))
    if z3.is_algebraic_value(v):
        return float(v.approx(20).as_fraction())
    try:
        return float(v.as_decimal(20).rstrip('?'))
    except Exception:
        return 0.0


def decode_values(values):
    """json values -> dict name -> ndarray (complex encoded as [re, im] pairs, flat)"""
    out = {}
    for k, v in (values or {}).items():
        a = np.array(v)
        out[k] = a
    return out


def to_complex(flat_pairs, shape):
    a = np.array(flat_pairs, dtype=float).reshape(-1, 2)
    return (a[:, 0] + 1j * a[:, 1]).reshape(shape)
