"""Harness environment: one harness body runs (a) symbolically on SymArrays with obligations
decided by z3 and (b) concretely on plain NumPy floats (replay of solver models, co-simulation).
"""
from fractions import Fraction
import fnmatch
import hashlib
import json
import math
import os
import sys
import time
import traceback

import numpy as np

REL_TOL = 1e-6
ABS_TOL = 1e-9


class OutsidePre(BaseException):
    """concrete run violated a precondition (replay candidate is outside the domain)"""


class Obl:
    __slots__ = ('label', 'verdict', 'secs', 'nontrivial', 'path', 'detail')

    def __init__(self, label, verdict, secs=0.0, nontrivial=True, path=0, detail=None):
        self.label, self.verdict, self.secs, self.nontrivial, self.path, self.detail = label, verdict, secs, nontrivial, path, detail

    def asdict(self):
        return dict(label=self.label, verdict=self.verdict, secs=round(self.secs, 4), nontrivial=self.nontrivial,
                    path=self.path, detail=self.detail)


def _is_symarr(x):
    return type(x).__name__ == 'SymArray'


class Env:
    def __init__(self, mode, values=None, seed=0, timeout_ms=20000, pin_tries=3):
        self.mode = mode                   # 'sym' | 'conc'
        self.sym = mode == 'sym'
        self.values = values or {}
        self.rng = np.random.RandomState(seed)
        self.seed = seed
        self.timeout_ms = timeout_ms
        self.pin_tries = pin_tries
        self.obls = []
        self.candidates = []               # dict(label, values, kind)
        self.inputs = {}                   # name -> (kind, shape, array)   this path
        self.path_no = 0
        self.assumptions = []
        self.failed = []                   # concrete mode: failing labels
        self.conc_inputs = {}
        self._axioms_cache = None
        self.use_exp_products = True
        self.extra_axioms = []
        self.checked_labels = 0

    # ------------------------------------------------------------------ inputs
    def _draw(self, shape, lo, hi, kind):
        lo = -2.0 if lo is None else lo
        hi = 2.0 if hi is None else hi
        return self.rng.uniform(lo, hi, size=shape)

    def real(self, name, shape, lo=None, hi=None, dtype=np.float64, integer=False):
        shape = tuple(shape)
        if self.sym:
            import z3
            from .array import sym_real
            from .core import CTX, zr
            a = sym_real(name, shape, dtype if not integer else np.int64)
            if name not in self.inputs:
                for e in a._a.ravel():
                    if lo is not None:
                        CTX.pre.append(e.z >= zr(lo))
                    if hi is not None:
                        CTX.pre.append(e.z <= zr(hi))
                    if integer:
                        iv = z3.Int('I' + str(e.z))
                        CTX.pre.append(e.z == z3.ToReal(iv))
            self.inputs[name] = ('int' if integer else 'real', shape, a)
            return a
        if name in self.values:
            v = np.array(self.values[name], dtype=np.float64).reshape(shape)
        else:
            v = self._draw(shape, lo, hi, 'real')
            if integer:
                v = np.floor(v)
        v = v.astype(np.int64) if integer else v.astype(dtype)
        self.conc_inputs[name] = v
        return v.copy()

    def cplx(self, name, shape, lo=None, hi=None, dtype=np.complex128):
        shape = tuple(shape)
        if self.sym:
            from .array import sym_complex
            from .core import CTX, zr
            a = sym_complex(name, shape, dtype)
            if name not in self.inputs:
                for e in a._a.ravel():
                    for part in (e.re, e.im):
                        if lo is not None:
                            CTX.pre.append(part.z >= zr(lo))
                        if hi is not None:
                            CTX.pre.append(part.z <= zr(hi))
            self.inputs[name] = ('cplx', shape, a)
            return a
        if name in self.values:
            v = np.array(self.values[name], dtype=np.complex128).reshape(shape)
        else:
            v = self._draw(shape, lo, hi, 'real') + 1j * self._draw(shape, lo, hi, 'real')
        v = v.astype(dtype)
        self.conc_inputs[name] = v
        return v.copy()

    def boolean(self, name, shape, fork=False):
        """symbolic booleans; fork=True decides every entry by path forking (all 2^n values explored,
        entries are concrete on each path)"""
        shape = tuple(shape)
        if self.sym:
            from .array import sym_bool, SymArray
            from .core import SB
            a = sym_bool(name, shape)
            self.inputs[name] = ('bool', shape, a)
            if fork:
                c = np.empty(shape, dtype=object)
                for idx in np.ndindex(*shape):
                    c[idx] = SB(bool(a._a[idx]))
                return SymArray(c, bool)
            return a
        if name in self.values:
            v = np.array(self.values[name], dtype=bool).reshape(shape)
        else:
            v = self.rng.uniform(size=shape) < 0.6
        self.conc_inputs[name] = v
        return v.copy()

    def readonly(self, arr):
        """mark an input read-only exactly like a caller's read-only ndarray"""
        if _is_symarr(arr):
            arr._a.flags.writeable = False
        else:
            arr.flags.writeable = False
        return arr

    # ------------------------------------------------------------------ scalars helpers
    def el(self, arr, idx=()):
        """scalar element (SR/SC/SB in sym mode, python number in conc mode)"""
        if _is_symarr(arr):
            return arr._a[idx]
        a = np.asarray(arr)
        v = a[idx]
        return v.item() if hasattr(v, 'item') else v

    def exp(self, x):
        return x.exp() if hasattr(x, 'exp') else math.exp(x)

    def log(self, x):
        return x.log() if hasattr(x, 'log') else (math.log(x) if x > 0 else float('-inf') if x == 0 else float('nan'))

    def sqrt(self, x):
        return x.sqrt() if hasattr(x, 'sqrt') else math.sqrt(x)

    def conj(self, x):
        return x.conjugate()

    def re(self, x):
        return x.real

    def im(self, x):
        return x.imag

    def abs2(self, x):
        return x.real * x.real + x.imag * x.imag

    def const(self, x):
        return x

    # ------------------------------------------------------------------ assumptions
    def assume(self, cond, note=None):
        if note and note not in self.assumptions:
            self.assumptions.append(note)
        if self.sym:
            from .core import CTX, SB
            for c in self._flat_bools(cond):
                CTX.pre.append(SB(c).e)
            return
        ok = bool(np.all(np.asarray(cond)))
        if not ok:
            raise OutsidePre(note or 'assumption violated')

    def assume_path(self, cond, note=None):
        """assumption on intermediate values of this path (not a global precondition)"""
        if note and note not in self.assumptions:
            self.assumptions.append(note)
        if self.sym:
            from .core import CTX, SB
            for c in self._flat_bools(cond):
                CTX.path.append(SB(c).e)
            return
        if not bool(np.all(np.asarray(cond))):
            raise OutsidePre(note or 'assumption violated')

    def _flat_bools(self, cond):
        if _is_symarr(cond):
            return list(cond._a.ravel())
        if isinstance(cond, (list, tuple)):
            out = []
            for c in cond:
                out += self._flat_bools(c)
            return out
        if isinstance(cond, np.ndarray):
            return list(cond.ravel())
        return [cond]

    # ------------------------------------------------------------------ obligations
    def _axioms(self):
        from . import core, stubs
        from .core import CTX
        key = (len(CTX.exp_reg), len(CTX.log_reg), len(CTX.uf_reg), len(self.extra_axioms))
        if self._axioms_cache is None or self._axioms_cache[0] != key:
            ax = core.exp_axioms(products=self.use_exp_products) + core.log_axioms() + core.uf_congruence() + stubs.spline_axioms() + list(self.extra_axioms)
            self._axioms_cache = (key, ax)
        return self._axioms_cache[1]

    def _pairs(self, a, b):
        """broadcast a,b -> list of (index, ea, eb) scalars"""
        if self.sym:
            from .array import lift
            A, B = lift(a), lift(b)
            ab, bb = np.broadcast_arrays(A._a, B._a)
            return [(idx, ab[idx], bb[idx]) for idx in np.ndindex(ab.shape)]
        A, B = np.asarray(a), np.asarray(b)
        ab, bb = np.broadcast_arrays(A, B)
        return [(idx, ab[idx], bb[idx]) for idx in np.ndindex(ab.shape)]

    def shape_is(self, label, arr, shape):
        got = tuple(arr.shape)
        self._record_plain(label + ':shape', got == tuple(shape), detail='%s vs %s' % (got, tuple(shape)))

    def _record_plain(self, label, ok, detail=None):
        """a concrete (non-solver) fact about the run, e.g. a shape or dtype"""
        if self.sym:
            if ok:
                self.obls.append(Obl(label, 'unsat', 0.0, False, self.path_no, detail))
            else:
                self.obls.append(Obl(label, 'sat', 0.0, True, self.path_no, detail))
                self._candidate(label, None, kind='concrete-fact')
        else:
            self.checked_labels += 1
            if not ok:
                self.failed.append((label, detail))

    def eq(self, label, a, b, rtol=REL_TOL, atol=ABS_TOL):
        if not self.sym:
            A, B = np.asarray(a), np.asarray(b)
            try:
                A, B = np.broadcast_arrays(A, B)
            except ValueError:
                self.failed.append((label, 'shape %s vs %s' % (A.shape, B.shape)))
                return
            self.checked_labels += 1
            with np.errstate(all='ignore'):
                bad = ~(np.abs(A - B) <= atol + rtol * np.maximum(np.abs(A), np.abs(B)))
                bad |= ~np.isfinite(A) | ~np.isfinite(B)
            if np.any(bad):
                i = tuple(int(x) for x in np.argwhere(bad)[0])
                self.failed.append((label, 'at %s: %r != %r' % (i, A[i].item() if A.ndim else A.item(), B[i].item() if B.ndim else B.item())))
            return
        import z3
        from .core import SC, SR, SB
        sa, sb = np.shape(a) if not _is_symarr(a) else a.shape, np.shape(b) if not _is_symarr(b) else b.shape
        try:
            pairs = self._pairs(a, b)
        except ValueError:
            self._record_plain(label + ':shape', False, detail='%s vs %s' % (sa, sb))
            return
        for idx, x, y in pairs:
            if isinstance(x, SB) or isinstance(y, SB):
                goal = SB(x).e == SB(y).e
                triv = z3.is_true(z3.simplify(goal))
            else:
                x, y = SC(x), SC(y)
                dre = z3.simplify(x.re.z - y.re.z, som=True)
                dim = z3.simplify(x.im.z - y.im.z, som=True)
                triv = dre.eq(z3.RealVal(0)) and dim.eq(z3.RealVal(0))
                parts = []
                if not dre.eq(z3.RealVal(0)):
                    parts.append(x.re.z == y.re.z)
                if not dim.eq(z3.RealVal(0)):
                    parts.append(x.im.z == y.im.z)
                goal = z3.And(*parts) if parts else z3.BoolVal(True)
            self._decide('%s%s' % (label, list(idx) if idx else ''), goal, triv)

    def le(self, label, a, b, strict=False):
        if not self.sym:
            A, B = np.broadcast_arrays(np.asarray(a, dtype=float), np.asarray(b, dtype=float))
            self.checked_labels += 1
            slack = ABS_TOL + REL_TOL * np.maximum(np.abs(A), np.abs(B))
            bad = ~(A <= B + slack) if not strict else ~(A < B + slack)
            if np.any(bad):
                i = tuple(int(x) for x in np.argwhere(bad)[0])
                self.failed.append((label, 'at %s: %r !<= %r' % (i, A[i].item() if A.ndim else A.item(), B[i].item() if B.ndim else B.item())))
            return
        import z3
        from .core import SR
        for idx, x, y in self._pairs(a, b):
            x, y = SR(x), SR(y)
            goal = (x < y).e if strict else (x <= y).e
            triv = z3.is_true(z3.simplify(goal))
            self._decide('%s%s' % (label, list(idx) if idx else ''), goal, triv)

    def true(self, label, cond):
        if not self.sym:
            self.checked_labels += 1
            if not bool(np.all(np.asarray(cond))):
                self.failed.append((label, 'false'))
            return
        import z3
        from .core import SB
        for i, c in enumerate(self._flat_bools(cond)):
            goal = SB(c).e
            self._decide('%s[%d]' % (label, i), goal, z3.is_true(z3.simplify(goal)))

    def lemma(self, label, hyps, goal):
        """abstract lemma over fresh variables: decided from `hyps` alone (no facts of the run);
        a proved lemma is a generalisation and sound to compose with per-entry identities"""
        if not self.sym:
            return
        import z3
        from . import core
        t0 = time.time()
        s = z3.Solver()
        s.set('timeout', int(self.timeout_ms))
        for h in hyps:
            s.add(h)
        s.add(z3.Not(goal))
        r = str(s.check())
        core.CTX.stats['queries'] += 1
        core.CTX.stats['solver_s'] += time.time() - t0
        self.obls.append(Obl('lemma:' + label, r, time.time() - t0, True, self.path_no))
        if r == 'sat':
            self.candidates.append(dict(label='lemma:' + label, values=None, kind='lemma', path=self.path_no))

    def isfinite(self, label, arr):
        """no NaN/Inf: in real arithmetic this is definedness of every division that produced arr;
        concretely np.isfinite"""
        if not self.sym:
            self.checked_labels += 1
            if not bool(np.all(np.isfinite(np.asarray(arr)))):
                self.failed.append((label, 'non-finite'))
            return
        # symbolic reals are finite; division definedness is checked by check_divisors()

    def check_divisors(self, label='defined'):
        """every symbolic divisor met so far on this path is non-zero"""
        if not self.sym:
            return
        import z3
        from .core import CTX
        seen = set()
        for d in list(CTX.divisors):
            k = d.get_id()
            if k in seen:
                continue
            seen.add(k)
            self._decide('%s:div%d' % (label, len(seen)), d != 0, False)
        CTX.divisors.clear()

    def _decide(self, label, goal, trivial=False):
        import z3
        from . import core
        from .core import CTX
        t0 = time.time()
        if trivial:
            self.obls.append(Obl(label, 'unsat', 0.0, False, self.path_no))
            return 'unsat'
        neg = z3.Not(goal)
        ax = self._axioms()
        r, m = core.decide(neg, extra=ax, timeout_ms=self.timeout_ms)
        if r == 'unknown' and self.pin_tries:
            r2, m2 = self._pinned(neg, ax)
            if r2 == 'sat':
                r, m = r2, m2
        self.obls.append(Obl(label, r, time.time() - t0, True, self.path_no))
        if r == 'sat':
            self._candidate(label, m, kind='obligation')
        return r

    def _pinned(self, neg, ax):
        """unknown -> ask the solver again with the inputs pinned to sampled values that satisfy
        the preconditions (a satisfying assignment is still found and certified by the solver)"""
        import z3
        from . import core
        from .core import CTX, zr
        for t in range(self.pin_tries):
            s = z3.Solver()
            s.set('timeout', 5000)
            for p in CTX.pre:
                s.add(p)
            s.set('random_seed', 11 + t)
            if str(s.check()) != 'sat':
                return 'unknown', None
            m0 = s.model()
            pins = []
            rng = np.random.RandomState(100 + t)
            for name, (kind, shape, arr) in self.inputs.items():
                for e in arr._a.ravel():
                    for part in ([e.re, e.im] if kind == 'cplx' else [e] if kind in ('real', 'int') else []):
                        v = m0.eval(part.z, model_completion=True)
                        pins.append(part.z == v)
            r, m = core.solve(neg, extra=list(ax) + pins, timeout_ms=self.timeout_ms, use_cone=False)
            if r == 'sat':
                return r, m
        return 'unknown', None

    def _candidate(self, label, model, kind):
        vals = self.model_values(model) if model is not None else None
        self.candidates.append(dict(label=label, values=vals, kind=kind, path=self.path_no))

    def model_values(self, model):
        import z3
        out = {}
        for name, (kind, shape, arr) in self.inputs.items():
            if kind == 'bool':
                v = np.zeros(shape, dtype=bool)
                for idx in np.ndindex(*shape):
                    v[idx] = z3.is_true(model.eval(arr._a[idx].e, model_completion=True))
                out[name] = v.tolist()
            elif kind == 'cplx':
                v = np.zeros(shape, dtype=complex)
                for idx in np.ndindex(*shape):
                    e = arr._a[idx]
                    v[idx] = complex(_z3_float(model.eval(e.re.z, model_completion=True)),
                                     _z3_float(model.eval(e.im.z, model_completion=True)))
                out[name] = [[x.real, x.imag] for x in v.ravel()]
            else:
                v = np.zeros(shape, dtype=float)
                for idx in np.ndindex(*shape):
                    v[idx] = _z3_float(model.eval(arr._a[idx].z, model_completion=True))
                out[name] = v.tolist()
        return out

    def path_model(self):
        """a model of pre & facts & path (for exceptions raised by the code under test)"""
        import z3
        from . import core
        r, m = core.solve(z3.BoolVal(True), timeout_ms=self.timeout_ms, use_cone=False)
        return (r, self.model_values(m) if r == 'sat' else None)


def _z3_float(v):
    import z3
    if z3.is_rational_value(v):
        return float(Fraction(v.numerator_as_long(), v.denominator_as_long()))
    if z3.is_algebraic_value(v):
        return float(v.approx(20).as_fraction())
    try:
        return float(v.as_decimal(20).rstrip('?'))
    except Exception:
        return 0.0


def decode_values(values):
    """json values -> dict name -> ndarray (complex encoded as [re, im] pairs, flat)"""
    out = {}
    for k, v in (values or {}).items():
        a = np.array(v)
        out[k] = a
    return out


def to_complex(flat_pairs, shape):
    a = np.array(flat_pairs, dtype=float).reshape(-1, 2)
    return (a[:, 0] + 1j * a[:, 1]).reshape(shape)
