"""Contract stubs for external numeric routines (LAPACK / SciPy / sklearn) and their installation
into the pb_bss modules of the harness process.  Stubs are functional: the same canonical argument
terms give the same result variables; a congruence axiom links calls with different terms."""
from fractions import Fraction
import itertools
import sys
import importlib

import numpy as np
import z3

from .core import CTX, SR, SC, SB, ite, Unsupported, key_of, uf_apply
from . import core
from .array import (SymArray, lift, implements, has_sym, NP, install, full, _map, _real_dtype, is_sym)

STUB_CALLS = {}


def _count(name):
    STUB_CALLS[name] = STUB_CALLS.get(name, 0) + 1


def _mat_key(name, A):
    parts = [name, str(A.shape)]
    for e in A.reshape(-1):
        if isinstance(e, SC):
            parts.append(key_of(e.re.z) + ',' + key_of(e.im.z))
        else:
            parts.append(key_of(SR(e).z))
    return '|'.join(parts)


def _entries_equal(A1, A2):
    conds = []
    for a, b in zip(A1.reshape(-1), A2.reshape(-1)):
        a, b = SC(a), SC(b)
        conds.append(a.re.z == b.re.z)
        conds.append(a.im.z == b.im.z)
    return z3.And(*conds) if conds else z3.BoolVal(True)


def _outs_equal(o1, o2):
    conds = []
    for x, y in zip(o1, o2):
        for a, b in zip(x.reshape(-1), y.reshape(-1)):
            a, b = SC(a), SC(b)
            conds.append(a.re.z == b.re.z)
            conds.append(a.im.z == b.im.z)
    return z3.And(*conds)


def _memo(name, A, build):
    """functional stub: memoise on canonical key; congruence axioms against earlier calls"""
    k = _mat_key(name, A)
    reg = CTX.stub_reg.setdefault(name, {})
    if k in reg:
        return reg[k][1]
    outs = build()
    for k2, (A2, outs2) in reg.items():
        if A2.shape == A.shape:
            CTX.fact(z3.Implies(_entries_equal(A, A2), _outs_equal(outs, outs2)))
    reg[k] = (A, outs)
    return outs


def _fresh_mat(name, shape, cplx):
    out = np.empty(shape, dtype=object)
    for idx in np.ndindex(*shape):
        if cplx:
            out[idx] = SC(SR(CTX.fresh(name + 'r')), SR(CTX.fresh(name + 'i')))
        else:
            out[idx] = SR(CTX.fresh(name))
    return out


def _eq_fact(lhs, rhs):
    l, r = SC(lhs), SC(rhs)
    CTX.fact(l.re.z == r.re.z)
    if not (core._is_zero(l.im) and core._is_zero(r.im)):
        CTX.fact(l.im.z == r.im.z)


def _is_hermitian_syntactic(A):
    D = A.shape[-1]
    for i in range(D):
        for j in range(i, D):
            a, b = SC(A[i, j]), SC(A[j, i]).conjugate()
            if not (z3.simplify(a.re.z - b.re.z, som=True, sort_sums=True).eq(z3.RealVal(0)) and
                    z3.simplify(a.im.z - b.im.z, som=True, sort_sums=True).eq(z3.RealVal(0))):
                return False
    return True


EIGH_INPUTS = []      # observation point: every matrix handed to eigh (harnesses read this)


def _eigh_one(A, cplx, B=None):
    D = A.shape[-1]

    def build():
        w = np.empty((D,), dtype=object)
        for i in range(D):
            w[i] = SR(CTX.fresh('ev'))
        V = _fresh_mat('v', (D, D), cplx)
        for i in range(D - 1):
            CTX.fact(w[i].z <= w[i + 1].z, simple=True)
        # A v_j = w_j (B) v_j
        for j in range(D):
            for r in range(D):
                lhs = 0
                for c in range(D):
                    lhs = A[r, c] * V[c, j] + lhs
                if B is None:
                    rhs = V[r, j] * w[j]
                else:
                    rhs = 0
                    for c in range(D):
                        rhs = B[r, c] * V[c, j] + rhs
                    rhs = rhs * w[j]
                _eq_fact(lhs, rhs)
        # V^H (B) V = I
        for i in range(D):
            for j in range(i, D):
                s = 0
                for r in range(D):
                    if B is None:
                        s = V[r, i].conjugate() * V[r, j] + s
                    else:
                        for c in range(D):
                            s = V[r, i].conjugate() * B[r, c] * V[c, j] + s
                _eq_fact(s, 1 if i == j else 0)
        if B is None:
            # derived (sound) extras: sum w = tr A ; V V^H = I
            tr = 0
            for i in range(D):
                tr = SC(A[i, i]).re + tr
            sw = 0
            for i in range(D):
                sw = w[i] + sw
            CTX.fact(SR(sw).z == SR(tr).z, simple=True)
            for i in range(D):
                for j in range(i, D):
                    s = 0
                    for r in range(D):
                        s = V[i, r] * V[j, r].conjugate() + s
                    _eq_fact(s, 1 if i == j else 0)
            for i in range(D):
                for j in range(D):
                    e = SC(V[i, j])
                    CTX.fact(z3.And(e.re.z >= -1, e.re.z <= 1, e.im.z >= -1, e.im.z <= 1), simple=True)
        return (w, V)

    key_mat = A if B is None else np.concatenate([A.reshape(-1), B.reshape(-1)]).reshape(2, D, D)
    return _memo('eigh' if B is None else 'geigh', key_mat, build)


@implements(np.linalg.eigh)
def _eigh(a, UPLO='L'):
    """contract: w real ascending, V unitary, A V = V diag(w).  LAPACK reads one triangle; the
    harness can inspect EIGH_INPUTS to put obligations on the matrix that was handed over."""
    _count('np.linalg.eigh')
    a = lift(a)
    *ind, D, D2 = a.shape
    assert D == D2
    cplx = a.dtype.kind == 'c'
    W = np.empty((*ind, D), dtype=object)
    V = np.empty((*ind, D, D), dtype=object)
    for idx in np.ndindex(*ind):
        A = a._a[idx]
        EIGH_INPUTS.append(A)
        w, v = _eigh_one(A, cplx)
        W[idx] = w
        V[idx] = v
    return SymArray(W, _real_dtype(a.dtype) if cplx else a.dtype), SymArray(V, a.dtype)


@implements(np.linalg.eig)
def _eig(a):
    raise Unsupported('np.linalg.eig on symbolic input')


def scipy_eigh(a, b=None, **kw):
    if not (has_sym(a) or has_sym(b)):
        import scipy.linalg
        return scipy.linalg.eigh(a, b, **kw)
    _count('scipy.linalg.eigh')
    if kw.get('eigvals') is not None or kw.get('subset_by_index') is not None:
        raise Unsupported('eigh subset')
    a = lift(a)
    cplx = a.dtype.kind == 'c' or (b is not None and lift(b).dtype.kind == 'c')
    if b is None:
        EIGH_INPUTS.append(a._a)
        w, v = _eigh_one(a._a, cplx)
    else:
        b = lift(b)
        EIGH_INPUTS.append((a._a, b._a))
        w, v = _eigh_one(a._a, cplx, b._a)
    dt = np.result_type(a.dtype, np.complex128 if cplx else np.float64)
    return SymArray(np.array(w, dtype=object), np.float64), SymArray(np.array(v, dtype=object), dt)


def scipy_eig(a, b=None, **kw):
    if not (has_sym(a) or has_sym(b)):
        import scipy.linalg
        return scipy.linalg.eig(a, b, **kw)
    # general eig: eigenvalues complex, unordered, eigenvectors unnormalised.  For the Hermitian
    # pencils of the properties the spectrum is the one of eigh; order and scaling are arbitrary:
    # model as eigh composed with an arbitrary (forked) rotation of the order is too expensive;
    # we return the eigh solution with complex dtype for the eigenvalues (a valid eig output).
    _count('scipy.linalg.eig')
    w, v = scipy_eigh(a, b)
    return w.astype(np.complex128), v


# ---------------------------------------------------------------- determinants / inverses
def _det(A):
    D = A.shape[-1]
    if D == 1:
        return A[0, 0]
    if D == 2:
        return A[0, 0] * A[1, 1] - A[0, 1] * A[1, 0]
    tot = 0
    for j in range(D):
        minor = np.delete(np.delete(A, 0, axis=0), j, axis=1)
        term = A[0, j] * _det(minor)
        tot = (tot + term) if j % 2 == 0 else (tot - term)
    return tot


def _all_concrete(A):
    for e in A.reshape(-1):
        e = SC(e)
        if not (e.re.is_conc and e.im.is_conc):
            return False
    return True


def _exact_inverse(A):
    """Gauss-Jordan on exact complex rationals"""
    D = A.shape[-1]
    M = [[SC(A[i, j]) for j in range(D)] + [SC(1 if i == j else 0) for j in range(D)] for i in range(D)]
    for c in range(D):
        piv = None
        for r in range(c, D):
            if not core._is_zero(M[r][c]):
                piv = r
                break
        if piv is None:
            raise np.linalg.LinAlgError('Singular matrix')
        M[c], M[piv] = M[piv], M[c]
        pv = M[c][c]
        M[c] = [x / pv for x in M[c]]
        for r in range(D):
            if r != c and not core._is_zero(M[r][c]):
                fct = M[r][c]
                M[r] = [x - fct * y for x, y in zip(M[r], M[c])]
    out = np.empty((D, D), dtype=object)
    for i in range(D):
        for j in range(D):
            out[i, j] = M[i][D + j]
    return out


def _inverse_of(A, cplx):
    D = A.shape[-1]
    if _all_concrete(A):
        Ai = _exact_inverse(A)
        if not cplx:
            for idx in np.ndindex(Ai.shape):
                Ai[idx] = Ai[idx].re
        return Ai

    def build():
        Ai = _fresh_mat('inv', (D, D), cplx)
        for i in range(D):
            for j in range(D):
                s1 = 0
                s2 = 0
                for r in range(D):
                    s1 = A[i, r] * Ai[r, j] + s1
                    s2 = Ai[i, r] * A[r, j] + s2
                _eq_fact(s1, 1 if i == j else 0)
                _eq_fact(s2, 1 if i == j else 0)
        if cplx and _is_hermitian_syntactic(A):
            # the inverse of a Hermitian matrix is Hermitian (derived, sound)
            for i in range(D):
                CTX.fact(SC(Ai[i, i]).im.z == 0)
                for j in range(i + 1, D):
                    _eq_fact(Ai[i, j], SC(Ai[j, i]).conjugate())
        return (Ai,)
    return _memo('inv', A, build)[0]


SOLVE_MAY_FAIL = [False]


def _solve_core(a, b, name):
    a, b = lift(a), lift(b)
    if a.shape[-1] != a.shape[-2]:
        raise np.linalg.LinAlgError('Last 2 dimensions of the array must be square')
    # vector / matrix interpretation and result shape from the *installed* NumPy on dummy arrays
    da = np.broadcast_to(np.eye(a.shape[-1], dtype=a.dtype), a.shape).copy()
    db = np.ones(b.shape, dtype=b.dtype)
    ref = np.linalg.solve(da, db)           # raises exactly like the installed NumPy for bad shapes
    vec = (b.ndim == 1)
    bm = b._a[..., None] if vec else b._a
    lead = np.broadcast_shapes(a.shape[:-2], bm.shape[:-2])
    A = np.broadcast_to(a._a, lead + a.shape[-2:])
    Bm = np.broadcast_to(bm, lead + bm.shape[-2:])
    D = a.shape[-1]
    M = bm.shape[-1]
    cplx = ref.dtype.kind == 'c'
    out = np.empty(lead + (D, M), dtype=object)
    for idx in np.ndindex(*lead):
        Ai = A[idx]
        if SOLVE_MAY_FAIL[0] and D <= 3:
            d = SC(_det(Ai))
            sing = (d.re == 0) & (d.im == 0)
            if bool(sing):
                raise np.linalg.LinAlgError('Singular matrix')
        inv = _inverse_of(Ai, a.dtype.kind == 'c')
        for i in range(D):
            for j in range(M):
                s = 0
                for r in range(D):
                    s = inv[i, r] * Bm[idx][r, j] + s
                out[idx + (i, j)] = s
    res = out[..., 0] if vec else out
    assert res.shape == ref.shape, (res.shape, ref.shape)
    return lift(SymArray(res, ref.dtype))


@implements(np.linalg.solve)
def _solve(a, b):
    _count('np.linalg.solve')
    return _solve_core(a, b, 'solve')


@implements(np.linalg.inv)
def _inv(a):
    _count('np.linalg.inv')
    a = lift(a)
    lead = a.shape[:-2]
    out = np.empty(a.shape, dtype=object)
    for idx in np.ndindex(*lead):
        out[idx] = _inverse_of(a._a[idx], a.dtype.kind == 'c')
    return SymArray(out, a.dtype)


@implements(np.linalg.det)
def _detf(a):
    a = lift(a)
    lead = a.shape[:-2]
    out = np.empty(lead, dtype=object)
    for idx in np.ndindex(*lead):
        out[idx] = _det(a._a[idx])
    return lift(SymArray(out, a.dtype))


@implements(np.linalg.slogdet)
def _slogdet(a):
    """logabsdet = log|det A| with det in closed form; sign = det/|det| (real +-1 for Hermitian)"""
    _count('np.linalg.slogdet')
    a = lift(a)
    lead = a.shape[:-2]
    sign = np.empty(lead, dtype=object)
    lad = np.empty(lead, dtype=object)
    for idx in np.ndindex(*lead):
        d = _det(a._a[idx])
        m = abs(d)
        lad[idx] = SR(m).log()
        sign[idx] = d / m
    return SymArray(sign, a.dtype), SymArray(lad, _real_dtype(a.dtype) if a.dtype.kind == 'c' else a.dtype)


@implements(np.linalg.lstsq)
def _lstsq(a, b, rcond=None):
    """X = pinv(A) B ; pinv by the four Penrose equations (zero matrix -> zero)"""
    _count('np.linalg.lstsq')
    a, b = lift(a), lift(b)
    if a.ndim != 2:
        raise np.linalg.LinAlgError('%d-dimensional array given. Array must be two-dimensional' % a.ndim)
    A = a._a
    n, m = A.shape
    cplx = a.dtype.kind == 'c'
    if all(core._is_zero(e) for e in A.reshape(-1)):
        P = np.empty((m, n), dtype=object)
        P[...] = SC(0) if cplx else SR(0)
    else:
        def build():
            P = _fresh_mat('pinv', (m, n), cplx)
            AP = _mm(A, P); PA = _mm(P, A)
            for M1, M2 in ((_mm(AP, A), A), (_mm(PA, P), P)):
                for x, y in zip(M1.reshape(-1), M2.reshape(-1)):
                    _eq_fact(x, y)
            for H in (AP, PA):
                k = H.shape[0]
                for i in range(k):
                    for j in range(i, k):
                        _eq_fact(H[i, j], SC(H[j, i]).conjugate())
            return (P,)
        P = _memo('pinv', A, build)[0]
    vec = b.ndim == 1
    Bm = b._a[:, None] if vec else b._a
    X = _mm(P, Bm)
    X = X[:, 0] if vec else X
    dt = np.result_type(a.dtype, b.dtype)
    return lift(SymArray(X, dt)), None, None, None


def _mm(A, B):
    n, k = A.shape
    k2, m = B.shape
    out = np.empty((n, m), dtype=object)
    for i in range(n):
        for j in range(m):
            s = 0
            for r in range(k):
                s = A[i, r] * B[r, j] + s
            out[i, j] = s
    return out


@implements(np.linalg.cholesky)
def _cholesky(a, **kw):
    raise Unsupported('cholesky on symbolic input')


# ---------------------------------------------------------------- sklearn
def precision_cholesky(covariances, covariance_type, xp=None):
    if not has_sym(covariances):
        from sklearn.mixture._gaussian_mixture import _compute_precision_cholesky as real
        return real(covariances, covariance_type)
    _count('sklearn._compute_precision_cholesky')
    c = lift(covariances)
    if covariance_type == 'full':
        n, D, _ = c.shape
        out = np.empty((n, D, D), dtype=object)
        for k in range(n):
            C = c._a[k]

            def build(C=C):
                P = np.empty((D, D), dtype=object)
                for i in range(D):
                    for j in range(D):
                        if j >= i:
                            P[i, j] = SR(CTX.fresh('pc'))
                        else:
                            P[i, j] = SR(0)
                    CTX.fact(P[i, i].z > 0, simple=True)
                # P^T C P = I
                PtC = _mm(P.T, C)
                M = _mm(PtC, P)
                for i in range(D):
                    for j in range(i, D):
                        CTX.fact(SR(M[i, j]).z == (1 if i == j else 0))
                # C P P^T = I  (derived; precision = P P^T)
                PPt = _mm(P, P.T)
                M2 = _mm(C, PPt)
                for i in range(D):
                    for j in range(D):
                        CTX.fact(SR(M2[i, j]).z == (1 if i == j else 0))
                return (P,)
            out[k] = _memo('prec_chol', C, build)[0]
        return SymArray(out, c.dtype)
    if covariance_type in ('diag', 'spherical'):
        bad = np.any(c <= 0.0)
        if bool(bad):
            raise ValueError('Fitting the mixture model failed because some components have ill-defined empirical covariance')
        return 1.0 / np.sqrt(c)
    raise Unsupported(covariance_type)


def log_det_cholesky(matrix_chol, covariance_type, n_features, xp=None):
    if not has_sym(matrix_chol):
        from sklearn.mixture._gaussian_mixture import _compute_log_det_cholesky as real
        return real(matrix_chol, covariance_type, n_features)
    m = lift(matrix_chol)
    if covariance_type == 'full':
        n = m.shape[0]
        return np.sum(np.log(m.reshape(n, -1)[:, ::n_features + 1]), 1)
    if covariance_type == 'diag':
        return np.sum(np.log(m), axis=1)
    if covariance_type == 'spherical':
        return n_features * np.log(m)
    raise Unsupported(covariance_type)


# ---------------------------------------------------------------- special functions
def _uf_elementwise(name, x):
    x = lift(x)
    return SymArray(_map(lambda e: uf_apply(name, e), x._a), np.float64)


def hyp1f1(a, b, x, **kw):
    if not has_sym(x):
        import scipy.special
        return scipy.special.hyp1f1(a, b, x, **kw)
    _count('hyp1f1')
    r = _uf_elementwise('hyp1f1_%s_%s' % (a, b), x)
    for e in r._a.ravel():
        CTX.fact(e.z > 0, simple=True)
    return r


def ive(v, x, **kw):
    if not has_sym(x):
        import scipy.special
        return scipy.special.ive(v, x, **kw)
    _count('ive')
    r = _uf_elementwise('ive_%s' % (v,), x)
    for e in r._a.ravel():
        CTX.fact(e.z > 0, simple=True)
    return r


def logsumexp(a, axis=None, b=None, keepdims=False, return_sign=False):
    if not (has_sym(a) or has_sym(b)):
        import scipy.special
        return scipy.special.logsumexp(a, axis=axis, b=b, keepdims=keepdims, return_sign=return_sign)
    _count('logsumexp')
    a = lift(a)
    e = np.exp(a)
    if b is not None:
        e = e * b
    return np.log(np.sum(e, axis=axis, keepdims=keepdims))


class _SciPySpecialProxy:
    logsumexp = staticmethod(logsumexp)

    def __getattr__(self, n):
        import scipy.special
        return getattr(scipy.special, n)


class _SciPyProxy:
    special = _SciPySpecialProxy()

    def __getattr__(self, n):
        import scipy
        return getattr(scipy, n)


WATSON_MAX = {}


class _SplineStub:
    """interp1d(y=ratio, x=concentration) of the Watson trainer: kappa = H(lambda), monotone,
    range [fill_low, fill_high]"""

    def __init__(self, real, lo, hi, xmax):
        self.real = real
        self.lo, self.hi, self.xmax = lo, hi, xmax

    def __call__(self, x):
        if not has_sym(x):
            return self.real(x)
        _count('watson_spline')
        x = lift(x)
        name = getattr(self, 'name', 'H_%r' % (self.hi,))
        out = _map(lambda e: uf_apply(name, e), x._a)
        for e, a in zip(out.ravel(), x._a.ravel()):
            CTX.fact(z3.And(e.z >= core.zr(float(self.lo)), e.z <= core.zr(float(self.hi))), simple=True)
        return SymArray(out, np.float64)


def grid_name(x, y, fill):
    """name of the spline UF: determined by the interpolation grid and the fill values"""
    import hashlib
    h = hashlib.sha1()
    h.update(np.round(np.asarray(x, dtype=float), 10).tobytes())
    h.update(np.round(np.asarray(y, dtype=float), 8).tobytes())
    h.update(repr(tuple(float(v) for v in fill)).encode())
    return 'H_' + h.hexdigest()[:10]


def interp1d(x, y, **kw):
    from scipy.interpolate import interp1d as real
    r = real(x, y, **kw)
    fv = kw.get('fill_value', (np.nan, np.nan))
    if isinstance(fv, tuple) and len(fv) == 2:
        st = _SplineStub(r, fv[0], fv[1], np.max(x))
        st.name = grid_name(x, y, fv)
        return st
    return r


def spline_axioms():
    """monotonicity + congruence for the registered spline applications"""
    ax = []
    by = {}
    for (name, _k), (a, v) in CTX.uf_reg.items():
        if name.startswith('H_'):
            by.setdefault(name, []).append((a, v))
    for name, items in by.items():
        for (a, va), (b, vb) in itertools.combinations(items, 2):
            ax.append(z3.Implies(a <= b, va <= vb))
            ax.append(z3.Implies(a >= b, va >= vb))
    return ax


# ---------------------------------------------------------------- installation
PB_MODULES = [
    'pb_bss.utils',
    'pb_bss.math.solve',
    'pb_bss.permutation_alignment',
    'pb_bss.distribution.utils',
    'pb_bss.distribution.mixture_model_utils',
    'pb_bss.distribution.complex_angular_central_gaussian',
    'pb_bss.distribution.complex_circular_symmetric_gaussian',
    'pb_bss.distribution.complex_watson',
    'pb_bss.distribution.complex_bingham',
    'pb_bss.distribution.von_mises_fisher',
    'pb_bss.distribution.gaussian',
    'pb_bss.distribution.cacgmm',
    'pb_bss.distribution.cwmm',
    'pb_bss.distribution.cbmm',
    'pb_bss.distribution.gmm',
    'pb_bss.distribution.vmfmm',
    'pb_bss.distribution.gcacgmm',
    'pb_bss.distribution.vmfcacgmm',
    'pb_bss.extraction.beamformer',
    'pb_bss.extraction.beamformer_wrapper',
    'pb_bss.extraction.mask_module',
    'pb_bss.evaluation.sxr_module',
    'pb_bss.evaluation.module_si_sdr',
    'pb_bss.initializer.iid',
    'pb_bss.initializer.deterministic',
    'pb_bss.initializer.deflation',
]

_REBIND = {
    'solve': None,   # numpy.linalg.solve dispatches through __array_function__
    'eigh': scipy_eigh,
    'eig': scipy_eig,
    'hyp1f1': hyp1f1,
    'ive': ive,
    'interp1d': interp1d,
    '_compute_precision_cholesky': precision_cholesky,
    '_compute_log_det_cholesky': log_det_cholesky,
}

_SAVED = {}


def install_all():
    """import the pb_bss modules from the current /repo tree and rebind their globals (this process only)"""
    import warnings
    mods = []
    with warnings.catch_warnings():
        warnings.simplefilter('ignore')
        for name in PB_MODULES:
            try:
                mods.append(importlib.import_module(name))
            except Exception as e:        # a module that does not import is reported by the harness that needs it
                CTX.notes.append('import %s failed: %r' % (name, e))
    for m in mods:
        if getattr(m, 'np', None) is np:
            _SAVED[(m.__name__, 'np')] = np
            m.np = NP
        for attr, repl in _REBIND.items():
            if repl is None or not hasattr(m, attr):
                continue
            cur = getattr(m, attr)
            if cur is repl:
                continue
            modname = getattr(cur, '__module__', '') or ''
            if attr in ('eigh', 'eig') and not modname.startswith('scipy'):
                continue
            _SAVED[(m.__name__, attr)] = cur
            setattr(m, attr, repl)
        if getattr(m, 'scipy', None) is not None and m.__name__.endswith('.cacgmm'):
            _SAVED[(m.__name__, 'scipy')] = m.scipy
            m.scipy = _SciPyProxy()
    return mods


def uninstall_all():
    for (mn, attr), val in list(_SAVED.items()):
        setattr(sys.modules[mn], attr, val)
    _SAVED.clear()
