"""Runs the cases of one property: symbolic run per path (obligations -> z3), replay of every
solver counterexample against the unpatched real code with plain NumPy, concrete co-simulation,
evidence + exit code."""
import concurrent.futures as cf
import fnmatch
import hashlib
import importlib
import json
import multiprocessing as mp
import os
import sys
import time
import traceback

VERIF = os.path.dirname(os.path.dirname(os.path.abspath(__file__)))
REPO = os.environ.get('PB_BSS_REPO', '/repo')


class Case:
    def __init__(self, name, fn, kw=None, bounds='', timeout_ms=20000, max_paths=2000, cosim=2, budget_s=400,
                 expect_exception=None, pin_tries=2, lazy=False, allow=()):
        self.name, self.fn, self.kw = name, fn, dict(kw or {})
        self.bounds, self.timeout_ms, self.max_paths, self.cosim, self.budget_s = bounds, timeout_ms, max_paths, cosim, budget_s
        self.pin_tries = pin_tries
        self.lazy = lazy
        self.allow = tuple(allow)      # exception type names the property allows (explicit exception on degenerate input)


def _setup_path():
    if sys.path[0] != REPO:
        sys.path.insert(0, REPO)
    if VERIF not in sys.path:
        sys.path.insert(1, VERIF)
    os.environ['PB_BSS_VERIF'] = '1'


def _fresh_repo_modules():
    """history-free start: drop the pb_bss modules (and the harness modules that hold references to them) so that
    every case imports /repo's current source into fresh module state (class-/module-level caches included)"""
    from symnp import stubs
    stubs.uninstall_all()
    for name in list(sys.modules):
        if name == 'pb_bss' or name.startswith('pb_bss.') or name.startswith('harness.'):
            del sys.modules[name]


def _load(prop):
    _setup_path()
    _fresh_repo_modules()
    return importlib.import_module('harness.' + prop.lower())


_PROFILE = set()


def _profiler(frame, event, arg):
    if event == 'call':
        co = frame.f_code
        fn = co.co_filename
        if '/pb_bss/' in fn and fn.startswith(REPO):
            _PROFILE.add(fn[len(REPO) + 1:] + ':' + getattr(co, 'co_qualname', co.co_name))


def run_sym(prop, tier, case_name, seed):
    """worker: symbolic exploration of one case"""
    import warnings
    warnings.simplefilter('ignore')
    t0 = time.time()
    mod = _load(prop)
    case = {c.name: c for c in mod.cases(tier)}[case_name]
    from symnp import core, stubs
    from symnp.core import CTX
    from symnp.env import Env, OutsidePre
    stubs.install_all()
    CTX.pre.clear()
    CTX.lazy = case.lazy
    CTX.stats.update(queries=0, solver_s=0.0, guards=0, forks=0, unknown=0)
    stubs.STUB_CALLS.clear()
    env = Env('sym', seed=seed, timeout_ms=case.timeout_ms, pin_tries=case.pin_tries)
    env.deadline = t0 + case.budget_s
    CTX.deadline = t0 + case.budget_s
    res = dict(case=case_name, paths=0, obls=[], candidates=[], error=None, notes=[], assumptions=[])
    _PROFILE.clear()

    def body():
        env.inputs = {}
        env._axioms_cache = None
        stubs.EIGH_INPUTS.clear()
        from symnp.array import RANDOM
        RANDOM.seed(None)
        return case.fn(env, **case.kw)

    sys.setprofile(_profiler)
    try:
        gen = core.explore(_guard(body, env, case.allow), max_paths=case.max_paths)
        for _ in gen:
            res['paths'] += 1
            env.path_no += 1
            if time.time() - t0 > case.budget_s:
                res['error'] = 'case budget exceeded after %d paths' % res['paths']
                break
    except core.Unsupported as e:
        res['error'] = 'unsupported: %s' % (e,)
    except BaseException as e:
        if type(e).__name__ in ('StopCase', 'Budget'):
            if 'budget' in str(e):
                res['error'] = 'case budget exceeded (%ds) after %d paths' % (case.budget_s, res['paths'])
            else:
                res['notes'] = ['exploration stopped early: %s raised on 4 paths' % (e,)]
        else:
            raise
    except Exception:
        res['error'] = traceback.format_exc(limit=12)
    finally:
        sys.setprofile(None)
    res['obls'] = [o.asdict() for o in env.obls]
    res['candidates'] = env.candidates
    res['assumptions'] = env.assumptions
    res['stats'] = dict(CTX.stats)
    res['stubs'] = dict(stubs.STUB_CALLS)
    res['functions'] = sorted(_PROFILE)
    res['notes'] = list(res.get('notes') or []) + list(CTX.notes)
    res['wall_s'] = time.time() - t0
    return res


def _guard(body, env, allow=()):
    """exceptions of the code under test on a feasible path are candidate violations"""
    from symnp import core
    from symnp.env import Obl

    def f():
        try:
            return body()
        except core.Abort:
            raise
        except core.Unsupported:
            raise
        except Exception as e:
            tb = traceback.format_exc(limit=6)
            if type(e).__name__ in allow and _in_repo(e):
                env.obls.append(Obl('allowed_exception:%s' % type(e).__name__, 'unsat', 0.0, False, env.path_no))
                return None
            if isinstance(e, core.NaNProduced) and _in_repo(e):
                label = 'no_nan'
                r, vals = env.path_model()
                env.obls.append(Obl(label, 'sat' if r == 'sat' else r, 0.0, True, env.path_no, detail=str(e)))
                if r == 'sat':
                    env.candidates.append(dict(label=label, values=vals, kind='nan', path=env.path_no))
                return None
            if _from_engine(e) or not _in_repo(e):
                raise core.Unsupported('engine error: %r\n%s' % (e, tb))
            label = 'no_exception:%s' % type(e).__name__
            r, vals = env.path_model()
            env.obls.append(Obl(label, 'sat' if r == 'sat' else r, 0.0, True, env.path_no, detail=tb[-600:]))
            if r == 'sat':
                env.candidates.append(dict(label=label, values=vals, kind='exception', path=env.path_no))
            env.bad_labels[label] = env.bad_labels.get(label, 0) + 1
            if env.bad_labels[label] >= 4:
                from symnp.env import StopCase
                raise StopCase(label)
            return None
    return f


def _in_repo(e):
    tb = e.__traceback__
    while tb is not None:
        if tb.tb_frame.f_code.co_filename.startswith(REPO + '/'):
            return True
        tb = tb.tb_next
    return False


def _from_engine(e):
    tb = e.__traceback__
    last = None
    while tb is not None:
        last = tb
        tb = tb.tb_next
    fn = last.tb_frame.f_code.co_filename if last else ''
    return '/symnp/' in fn and not isinstance(e, (ValueError, AssertionError, np_linalg_error()))


def np_linalg_error():
    import numpy as np
    return np.linalg.LinAlgError


def run_conc(prop, tier, case_name, seed, values):
    """worker: concrete run with plain NumPy (no stubs, no proxies) -- replay or co-simulation"""
    import warnings
    warnings.simplefilter('ignore')
    import numpy as np
    mod = _load(prop)
    case = {c.name: c for c in mod.cases(tier)}[case_name]
    from symnp.env import Env, OutsidePre
    from symnp import stubs
    stubs.uninstall_all()
    env = Env('conc', values=values, seed=seed)
    out = dict(case=case_name, failed=[], outside=False, error=None, checked=0)
    try:
        with np.errstate(all='ignore'):
            case.fn(env, **case.kw)
    except OutsidePre as e:
        out['outside'] = True
        out['note'] = str(e)
    except Exception as e:
        if type(e).__name__ in case.allow and _in_repo(e):
            out['note'] = 'allowed exception %s' % type(e).__name__
        elif _in_repo(e):
            out['failed'].append(('no_exception:%s' % type(e).__name__, traceback.format_exc(limit=8)[-700:]))
        else:
            out['error'] = 'harness exception in concrete mode: ' + traceback.format_exc(limit=8)[-900:]
    except BaseException as e:
        out['error'] = 'engine exception in concrete mode: %r' % (e,)
    out['failed'] += [list(x) for x in env.failed]
    out['checked'] = env.checked_labels
    out['inputs'] = {k: _enc(v) for k, v in env.conc_inputs.items()}
    return out


def _enc(v):
    import numpy as np
    v = np.asarray(v)
    if v.dtype.kind == 'c':
        return [[float(x.real), float(x.imag)] for x in v.ravel()]
    return v.tolist()


def _dec_values(values, mod_inputs=None):
    return values


def sha_sources():
    out = {}
    base = os.path.join(REPO, 'pb_bss')
    for root, _, files in os.walk(base):
        for f in files:
            if f.endswith('.py'):
                p = os.path.join(root, f)
                out[p[len(REPO) + 1:]] = hashlib.sha256(open(p, 'rb').read()).hexdigest()[:16]
    return out


def load_known():
    p = os.path.join(VERIF, 'known_findings.json')
    if not os.path.exists(p):
        return []
    return json.load(open(p)).get('findings', [])


def main(prop, tier='quick', replay=None, only=None, jobs=None, verbose=False):
    t_start = time.time()
    seed = int(os.environ.get('VERIF_SEED', '0') or 0)
    mod = _load(prop)
    cases = mod.cases(tier)
    if only:
        cases = [c for c in cases if fnmatch.fnmatch(c.name, only)]
    if replay:
        return do_replay(prop, tier, replay)
    jobs = jobs or min(16, max(1, len(cases)))
    ctx = mp.get_context('spawn')
    results = {}
    with cf.ProcessPoolExecutor(max_workers=jobs, mp_context=ctx) as ex:
        futs = {ex.submit(run_sym, prop, tier, c.name, seed): c for c in cases}
        cos = {}
        for c in cases:
            for i in range(c.cosim):
                cos[ex.submit(run_conc, prop, tier, c.name, seed * 1000 + i + 1, None)] = (c, i)
        for f in cf.as_completed(list(futs) + list(cos)):
            if f in futs:
                c = futs[f]
                try:
                    results[c.name] = f.result()
                except Exception as e:
                    results[c.name] = dict(case=c.name, paths=0, obls=[], candidates=[], error='worker died: %r' % (e,),
                                           stats={}, stubs={}, functions=[], notes=[], assumptions=[], wall_s=0)
            else:
                c, i = cos[f]
                try:
                    r = f.result()
                except Exception as e:
                    r = dict(case=c.name, failed=[], outside=False, error='worker died: %r' % (e,), checked=0)
                results.setdefault('_cosim', {}).setdefault(c.name, []).append(r)
        # replay every candidate against the real code
        rep = {}
        for c in cases:
            r = results[c.name]
            seen = set()
            for cand in r['candidates']:
                key = (cand['label'].split('[')[0], json.dumps(cand['values'], sort_keys=True)[:2000])
                if key in seen or len(seen) >= 6:
                    continue
                seen.add(key)
                rep[ex.submit(run_conc, prop, tier, c.name, seed, cand['values'])] = (c, cand)
        replays = []
        for f in cf.as_completed(list(rep)):
            c, cand = rep[f]
            try:
                rr = f.result()
            except Exception as e:
                rr = dict(case=c.name, failed=[], outside=False, error='worker died: %r' % (e,), checked=0)
            replays.append((c, cand, rr))
    if os.environ.get('VERIF_DUMP'):
        os.makedirs(os.path.join(VERIF, 'scratch'), exist_ok=True)
        json.dump(results, open(os.path.join(VERIF, 'scratch', prop + '.dump.json'), 'w'), default=str)
    return report(prop, tier, seed, cases, results, replays, t_start, verbose)


def _base(label):
    return label.split('[')[0]


def report(prop, tier, seed, cases, results, replays, t_start, verbose):
    known = [k for k in load_known() if k.get('property') == prop and not k.get('fixed')]
    violations, known_hits, spurious, inconclusive, errors, cosim_bad = [], [], [], [], [], []
    os.makedirs(os.path.join(VERIF, 'replay', prop), exist_ok=True)
    for c, cand, rr in replays:
        key = '%s:%s' % (c.name, _base(cand['label']))
        aliases = getattr(sys.modules.get('harness.' + prop.lower()), 'ALIASES', {})
        lb = _base(cand['label'])
        ok_labels = {lb} | set(aliases.get(lb, ()))
        if lb.startswith('no_exception'):
            same = [x for x in rr['failed'] if _base(x[0]).startswith('no_exception')]
        elif lb == 'no_nan':
            same = [x for x in rr['failed'] if 'nan' in str(x[1]).lower() or 'non-finite' in str(x[1]).lower()]
        else:
            same = [x for x in rr['failed'] if _base(x[0]) in ok_labels]
        reproduced = bool(same) and not rr['outside'] and not rr.get('error')
        if reproduced:
            rr = dict(rr, failed=same)
        if reproduced:
            path = os.path.join(VERIF, 'replay', prop, (key.replace('/', '_').replace(':', '__'))[:150] + '.json')
            json.dump(dict(property=prop, tier=tier, case=c.name, label=cand['label'], kind=cand['kind'], values=cand['values'],
                           observed=rr['failed'][:5], bounds=c.bounds), open(path, 'w'), indent=1)
            hit = None
            for k in known:
                if fnmatch.fnmatch(key, k['key']):
                    hit = k
                    break
            (known_hits if hit else violations).append((key, path, rr['failed'][:2], hit))
        else:
            spurious.append((key, 'outside precondition' if rr['outside'] else (rr.get('error') or 'did not reproduce')))
    n_obl = n_dis = n_nontriv = 0
    skipped = set()
    solver_s = 0.0
    queries = 0
    funcs, stubs_used, assumptions, samples = set(), {}, [], []
    paths = 0
    for c in cases:
        r = results[c.name]
        paths += r['paths']
        if r.get('error'):
            errors.append((c.name, r['error']))
        for o in r['obls']:
            n_obl += 1
            if o['verdict'] == 'unsat':
                n_dis += 1
            elif o['verdict'] == 'skipped':
                skipped.add('%s:%s' % (c.name, _base(o['label'])))
            elif o['verdict'] != 'sat':
                inconclusive.append('%s:%s' % (c.name, o['label']))
            if o['nontrivial']:
                n_nontriv += 1
        st = r.get('stats') or {}
        solver_s += st.get('solver_s', 0.0)
        queries += st.get('queries', 0) + st.get('guards', 0)
        funcs.update(r.get('functions') or [])
        for k, v in (r.get('stubs') or {}).items():
            stubs_used[k] = stubs_used.get(k, 0) + v
        for a in r.get('assumptions') or []:
            if a not in assumptions:
                assumptions.append(a)
        if r['obls']:
            ex = [o for o in r['obls'] if o['nontrivial']][:2] or r['obls'][:1]
            samples.append(dict(case=c.name, bounds=c.bounds, paths=r['paths'], obligations=len(r['obls']),
                                examples=[dict(label=o['label'], verdict=o['verdict'], secs=o['secs']) for o in ex]))
        for cr in (results.get('_cosim', {}).get(c.name) or []):
            if cr.get('error'):
                cosim_bad.append((c.name, cr['error']))
            elif cr['failed'] and not cr['outside']:
                rest = [x for x in cr['failed'] if not any(fnmatch.fnmatch('%s:%s' % (c.name, _base(x[0])), k['key']) for k in known)]
                if rest:
                    cosim_bad.append((c.name, rest[:2]))
    rep_keys0 = set(k for k, *_ in violations) | set(k for k, *_ in known_hits)
    # solver inconclusive on an obligation family, but the concrete co-simulation of the same case (real code, plain
    # NumPy, random inputs inside the preconditions) fails exactly that family: report the concrete witness
    aliases = getattr(sys.modules.get('harness.' + prop.lower()), 'ALIASES', {})
    for c in cases:
        r = results[c.name]
        und = set()
        for o in r['obls']:
            b = _base(o['label'])
            if o['verdict'] not in ('unsat', 'sat') or (o['verdict'] == 'sat' and ('%s:%s' % (c.name, b)) not in rep_keys0):
                und.add(b)
                und.update(aliases.get(b, ()))
        anyfail = bool(r.get('error'))        # the symbolic run did not finish (engine error / budget): any concrete failure decides
        if not und and not anyfail:
            continue
        for cr in (results.get('_cosim', {}).get(c.name) or []):
            if cr.get('error') or cr.get('outside'):
                continue
            hit = [x for x in cr['failed'] if anyfail or _base(x[0]) in und or (_base(x[0]).startswith('no_exception') and any(u.startswith('no_exception') for u in und))]
            if hit:
                key = '%s:%s' % (c.name, _base(hit[0][0]))
                path = os.path.join(VERIF, 'replay', prop, (key.replace('/', '_').replace(':', '__'))[:150] + '.cosim.json')
                json.dump(dict(property=prop, tier=tier, case=c.name, label=hit[0][0], kind='cosim-witness (solver inconclusive)',
                               values=cr.get('inputs'), observed=hit[:5], bounds=c.bounds), open(path, 'w'), indent=1)
                k_hit = None
                for k in known:
                    if fnmatch.fnmatch(key, k['key']):
                        k_hit = k
                        break
                (known_hits if k_hit else violations).append((key, path, hit[:2], k_hit))
                break
    # spurious candidates: a sat obligation that did not reproduce is inconclusive
    sp_keys = set(k for k, _ in spurious)
    rep_keys = set(k for k, *_ in violations) | set(k for k, *_ in known_hits)
    for k, why in spurious:
        if k not in rep_keys:
            inconclusive.append('%s (candidate %s)' % (k, why))
    cos_runs = sum(len(v) for v in results.get('_cosim', {}).values())
    cos_checked = sum(cr.get('checked', 0) for v in results.get('_cosim', {}).values() for cr in v)
    wall = time.time() - t_start
    explanation = (
        'Bounded symbolic execution of the real pb_bss functions (imported from %s, unmodified) on arrays of z3 real '
        'terms (SymNP); every obligation is a z3 query pre & facts & path & not(goal); unsat = holds for all values '
        'within the stated shape bounds; sat models are replayed on the real code with plain NumPy before being reported. '
        'Reals, not floats; external LAPACK/SciPy/sklearn routines are contract stubs.' % REPO)
    ev = dict(
        property_id=prop, tier=tier, seed=seed, level='other',
        coverage=dict(
            explanation=explanation,
            obligations=n_obl, discharged=n_dis,
            evaluations=max(queries, n_obl), distinct_nontrivial=n_nontriv,
            rule='one obligation per output entry / per path; non-trivial = both sides are non-constant symbolic terms (decided by a z3 query, or by z3 normal-form identity of the terms of two executions); constant-vs-constant comparisons are not counted',
            samples=samples[:12],
            paths=paths, cases=[dict(name=c.name, bounds=c.bounds) for c in cases],
            functions_encoded=sorted(funcs), stubs=stubs_used,
            solver_time_s=round(solver_s, 2), solver='z3 %s (portfolio: default, qfnra-nlsat, seed, solve-eqs)' % _z3v(),
            spurious_candidates=[list(x) for x in spurious][:20],
            inconclusive=inconclusive[:20],
            cosimulation=dict(runs=cos_runs, checks=cos_checked, mismatches=[list(map(str, x)) for x in cosim_bad][:10]),
            known_findings=[k for k, *_ in known_hits],
            source_sha256=sha_sources(),
            outside_bounds=getattr(sys.modules.get('harness.' + prop.lower()), 'OUTSIDE', ''),
        ),
        assumptions=assumptions + ['real arithmetic as the semantics of float code (no rounding, overflow, NaN inputs)',
                                   'stub contracts of LAPACK/SciPy/sklearn routines', 'z3 soundness'],
        wall_s=round(wall, 2), violations=len(violations),
    )
    os.makedirs(os.path.join(VERIF, 'evidence'), exist_ok=True)
    json.dump(ev, open(os.path.join(VERIF, 'evidence', prop + '.json'), 'w'), indent=1, default=str)
    kseen = set()
    for key, path, failed, hit in known_hits:
        if hit.get('what', key) in kseen:
            continue
        kseen.add(hit.get('what', key))
        print('KNOWN-FINDING: property=%s %s (%s)' % (prop, hit.get('what', key), key))
    seen_keys = set()
    for key, path, failed, _ in violations:
        if key in seen_keys:
            continue
        seen_keys.add(key)
        print('VIOLATION property=%s replay=%s  # %s: %s' % (prop, path, key, str(failed)[:300]))
    print('%s %s: cases=%d paths=%d obligations=%d discharged=%d nontrivial=%d solver=%.1fs wall=%.1fs cosim=%d/%d-bad violations=%d known=%d inconclusive=%d errors=%d'
          % (prop, tier, len(cases), paths, n_obl, n_dis, n_nontriv, solver_s, wall, cos_runs, len(cosim_bad),
             len(violations), len(known_hits), len(inconclusive), len(errors)))
    if verbose or errors or inconclusive or cosim_bad:
        for n, e in errors:
            print('ERROR case=%s: %s' % (n, e))
        for i in inconclusive[:15]:
            print('INCONCLUSIVE', i)
        for n, e in cosim_bad[:10]:
            print('COSIM-MISMATCH case=%s: %s' % (n, str(e)[:400]))
    if violations:
        return 1
    if errors:
        return 2
    if inconclusive or cosim_bad:
        return 3
    return 0


def _z3v():
    try:
        import z3
        return z3.get_version_string()
    except Exception:
        return '?'


def do_replay(prop, tier, path):
    rec = json.load(open(path))
    r = run_conc(prop, rec.get('tier', tier), rec['case'], 0, rec['values'])
    print(json.dumps(dict(case=rec['case'], label=rec['label'], failed=r['failed'], outside=r['outside']), indent=1)[:3000])
    if r['failed'] and not r['outside']:
        print('VIOLATION property=%s replay=%s' % (prop, path))
        return 1
    return 0
