"""SymArray: duck ndarray of symbolic scalars; runs real NumPy code (einsum, broadcasting, views,
in-place ops) on object arrays and overrides only what compares or leaves the field."""
from fractions import Fraction
import itertools
import numpy as np
import z3

from .core import (CTX, SR, SC, SB, ite, Abort, Unsupported, _is_zero, fork, implied)

HANDLED = {}
UF = {}


def implements(*funcs):
    def deco(f):
        for fn in funcs:
            HANDLED[fn] = f
        return f
    return deco


def is_sym(x):
    return isinstance(x, SymArray)


def has_sym(x):
    if isinstance(x, (SymArray, SR, SC, SB)):
        return True
    if isinstance(x, (list, tuple)):
        return any(has_sym(e) for e in x)
    if isinstance(x, np.ndarray) and x.dtype == object:
        return any(has_sym(e) for e in x.ravel())
    return False


def _kind_of(x):
    if isinstance(x, SC) or isinstance(x, (complex, np.complexfloating)):
        return np.dtype(np.complex128)
    if isinstance(x, SB) or isinstance(x, (bool, np.bool_)):
        return np.dtype(bool)
    if isinstance(x, (int, np.integer)):
        return np.dtype(np.int64)
    return np.dtype(np.float64)


def _wrap_scalar(x, dtype):
    k = np.dtype(dtype).kind
    if k == 'c':
        return x if isinstance(x, SC) else SC(x)
    if k == 'b':
        return x if isinstance(x, SB) else SB(x)
    if isinstance(x, SC):
        return x.re     # numpy discards the imaginary part (ComplexWarning)
    if isinstance(x, (complex, np.complexfloating)):
        return SR(x.real)
    return x if isinstance(x, SR) else SR(x)


def _coerce_obj(a, dtype):
    """object array -> every element matches dtype kind (in place)"""
    k = np.dtype(dtype).kind
    want = SC if k == 'c' else SB if k == 'b' else SR
    if a.ndim == 0:
        if not isinstance(a[()], want):
            a[()] = _wrap_scalar(a[()], dtype)
        return a
    for idx in np.ndindex(a.shape):
        e = a[idx]
        if not isinstance(e, want):
            a[idx] = _wrap_scalar(e, dtype)
    return a


def lift(x, dtype=None):
    """anything -> SymArray"""
    if isinstance(x, SymArray):
        return x if dtype is None else x.astype(dtype)
    if isinstance(x, (SR, SC, SB)):
        a = np.empty((), dtype=object)
        a[()] = x
        return SymArray(a, _kind_of(x) if dtype is None else dtype)
    if isinstance(x, (list, tuple)) and has_sym(x):
        parts = [lift(e) for e in x]
        dt = np.result_type(*[p.dtype for p in parts]) if dtype is None else np.dtype(dtype)
        arr = np.empty((len(parts),) + parts[0].shape, dtype=object)
        for i, p in enumerate(parts):
            if p._a.ndim == 0:
                arr[i] = p._a[()]
            else:
                arr[i, ...] = p._a
        return SymArray(_coerce_obj(arr, dt), dt)
    arr = np.asarray(x)
    if arr.dtype == object:
        flat = list(arr.ravel())
        if any(isinstance(e, SymArray) for e in flat):
            return lift(arr.tolist(), dtype)
        dt = np.result_type(*[_kind_of(e) for e in flat]) if flat else np.dtype(float)
        if dtype is not None:
            dt = np.dtype(dtype)
        out = np.empty(arr.shape, dtype=object)
        for idx in np.ndindex(arr.shape):
            out[idx] = _wrap_scalar(arr[idx], dt)
        return SymArray(out, dt)
    dt = arr.dtype if dtype is None else np.dtype(dtype)
    out = np.empty(arr.shape, dtype=object)
    if arr.size:
        flat_in = arr.ravel()
        flat_out = out.reshape(-1)
        for i in range(flat_in.shape[0]):
            flat_out[i] = _wrap_scalar(flat_in[i].item(), dt)
    return SymArray(out, dt)


def unwrap(x):
    if isinstance(x, SymArray):
        return x._a
    if isinstance(x, (list, tuple)):
        return type(x)(unwrap(e) for e in x)
    if isinstance(x, dict):
        return {k: unwrap(v) for k, v in x.items()}
    return x


def shadow(x):
    if isinstance(x, SymArray):
        return np.ones(x.shape, dtype=x.dtype)
    if isinstance(x, (SR, SB)):
        return 1.0
    if isinstance(x, SC):
        return 1.0 + 0j
    if isinstance(x, (list, tuple)):
        return type(x)(shadow(e) for e in x)
    if isinstance(x, dict):
        return {k: shadow(v) for k, v in x.items()}
    return x


def _infer_dtype(a):
    ks = set()
    for e in (a.ravel() if isinstance(a, np.ndarray) else [a]):
        ks.add(_kind_of(e))
    return np.result_type(*ks) if ks else np.dtype(float)


def rewrap(res, sh):
    if isinstance(res, tuple):
        if isinstance(sh, tuple) and len(sh) == len(res):
            return tuple(rewrap(r, s) for r, s in zip(res, sh))
        return tuple(rewrap(r, None) for r in res)
    if isinstance(res, list):
        if isinstance(sh, list) and len(sh) == len(res):
            return [rewrap(r, s) for r, s in zip(res, sh)]
        return [rewrap(r, None) for r in res]
    if isinstance(res, np.ndarray) and res.dtype == object:
        if sh is not None and isinstance(sh, (np.ndarray, np.generic)) and np.shape(sh) == res.shape:
            dt = np.asarray(sh).dtype
        else:
            dt = _infer_dtype(res)
        return SymArray(_coerce_obj(res, dt), dt)
    if isinstance(res, (SR, SC, SB)):
        dt = np.asarray(sh).dtype if isinstance(sh, (np.ndarray, np.generic, float, complex, int, bool)) else _kind_of(res)
        return lift(res).astype(dt, copy=False)
    return res


class SymArray:
    __array_priority__ = 1000

    def __init__(self, a, dtype):
        self._a = a
        self.dtype = np.dtype(dtype)

    shape = property(lambda s: s._a.shape)
    ndim = property(lambda s: s._a.ndim)
    size = property(lambda s: s._a.size)
    flags = property(lambda s: s._a.flags)

    @property
    def T(self):
        return SymArray(self._a.T, self.dtype)

    @property
    def real(self):
        if self.dtype.kind == 'c':
            return SymArray(_map(lambda e: e.re, self._a), _real_dtype(self.dtype))
        return self

    @property
    def imag(self):
        if self.dtype.kind == 'c':
            return SymArray(_map(lambda e: e.im, self._a), _real_dtype(self.dtype))
        return SymArray(_map(lambda e: SR(0), self._a), self.dtype)

    def __len__(self):
        return len(self._a)

    def __iter__(self):
        if self.ndim == 0:
            raise TypeError('iteration over a 0-d array')
        for i in range(len(self._a)):
            yield self[i]

    def __getitem__(self, idx):
        idx = _conc_index(idx)
        r = self._a[idx]
        if not isinstance(r, np.ndarray):
            b = np.empty((), dtype=object)
            b[()] = r
            r = b
        return SymArray(r, self.dtype)

    def __setitem__(self, idx, val):
        idx = _conc_index(idx)
        v = lift(val)._a
        v = _coerce_obj(np.array(v, dtype=object, copy=True), self.dtype)
        if v.ndim == 0:
            v = v[()]
        self._a[idx] = v

    def copy(self, order='C'):
        return SymArray(self._a.copy(), self.dtype)

    def __copy__(self):
        return self.copy()

    def __deepcopy__(self, memo):
        return self.copy()

    def astype(self, dtype=None, copy=True, **kw):
        dt = np.dtype(dtype)
        if dt == self.dtype and not copy:
            return self
        a = self._a.copy()
        if dt.kind != 'c' and self.dtype.kind == 'c':
            a = _map(lambda e: e.re, a)
        if dt.kind in 'iu' and self.dtype.kind == 'f':
            raise Unsupported('float -> int cast of symbolic array')
        if dt.kind == 'b' and self.dtype.kind != 'b':
            a = _map(lambda e: SB(e != 0), a)
        return SymArray(_coerce_obj(a, dt), dt)

    def conj(self):
        return np.conjugate(self)
    conjugate = conj

    def __bool__(self):
        if self.size != 1:
            raise ValueError('The truth value of an array with more than one element is ambiguous.')
        e = self._a.ravel()[0]
        if isinstance(e, SB):
            return bool(e)
        return bool(e != 0)

    def __index__(self):
        e = self._a.ravel()[0]
        if isinstance(e, SR) and e.is_conc and not e.is_inf and e.v.denominator == 1:
            return int(e.v)
        raise TypeError('symbolic array element is not a concrete integer')
    __int__ = __index__

    def __float__(self):
        return float(self._a.ravel()[0])

    def __complex__(self):
        e = self._a.ravel()[0]
        e = SC(e)
        return complex(float(e.re), float(e.im))

    def item(self, *a):
        return self._a.ravel()[0] if not a else self._a.item(*a)

    def __repr__(self):
        return f'SymArray({self._a!r}, {self.dtype})'

    def __array__(self, *a, **k):
        raise Unsupported('SymArray converted to a plain ndarray (unsupported NumPy entry point)')

    # --- protocols
    def __array_ufunc__(self, ufunc, method, *inputs, out=None, where=True, **kwargs):
        kwargs.pop('casting', None)
        kwargs.pop('order', None)
        kwargs.pop('subok', None)
        if method == '__call__' and ufunc in UF:
            ins = [lift(i) for i in inputs]
            res = UF[ufunc](*ins)
            dtk = kwargs.pop('dtype', None)
            if dtk is not None:
                res = res.astype(dtk)
        elif method == 'reduce' and ufunc in (np.maximum, np.minimum):
            f = _amax if ufunc is np.maximum else _amin
            res = f(inputs[0], axis=kwargs.get('axis', 0), keepdims=kwargs.get('keepdims', False))
        elif method == 'reduce' and ufunc in (np.logical_and, np.logical_or):
            f = _all if ufunc is np.logical_and else _any
            res = f(inputs[0], axis=kwargs.get('axis', 0), keepdims=kwargs.get('keepdims', False))
        else:
            u = [i._a if isinstance(i, SymArray) else (lift(i)._a if isinstance(i, (SR, SC, SB)) else i) for i in inputs]
            sh = [shadow(i) for i in inputs]
            kw = dict(kwargs)
            dtk = kw.pop('dtype', None)
            try:
                with np.errstate(all='ignore'):
                    r_sh = getattr(ufunc, method)(*sh, **({**kw, 'dtype': dtk} if dtk is not None else kw))
                dt = np.asarray(r_sh).dtype
            except Exception:
                dt = None
            if method in ('reduce', 'accumulate'):
                u = [np.asarray(x, dtype=object) if not isinstance(x, np.ndarray) else x for x in u]
                if u[0].dtype != object:
                    u[0] = lift(u[0])._a
                kw.pop('initial', None)
                r = getattr(ufunc, method)(*u, dtype=object, **kw)
            else:
                u = [x if isinstance(x, np.ndarray) and x.dtype == object or np.isscalar(x) or isinstance(x, (SR, SC, SB))
                     else lift(x)._a for x in u]
                r = getattr(ufunc, method)(*u, **kw)
            if not isinstance(r, np.ndarray):
                b = np.empty((), dtype=object)
                b[()] = r
                r = b
            if dt is None:
                dt = _infer_dtype(r)
            res = SymArray(_coerce_obj(np.array(r, dtype=object, copy=False) if r.dtype == object else lift(r)._a, dt), dt)
        if where is not True:
            if out is None:
                raise Unsupported('where= without out=')
            cond = lift(where)
            base = out[0]
            cb, rb, ob = np.broadcast_arrays(cond._a, res._a, lift(base)._a)
            res = SymArray(_map(lambda c, a, b: ite(SB(c), a, b), cb, rb, ob), res.dtype)
        if out is not None:
            o = out[0] if isinstance(out, tuple) else out
            if not isinstance(o, SymArray):
                raise Unsupported('ufunc out= is a plain ndarray but inputs are symbolic')
            if o.dtype.kind != 'c' and res.dtype.kind == 'c':
                raise TypeError("Cannot cast ufunc output from complex to real (same_kind)")
            o._a[...] = _coerce_obj(np.array(np.broadcast_to(res._a, o.shape), dtype=object, copy=True), o.dtype)
            return o
        return res

    def __array_function__(self, func, types, args, kwargs):
        if func in HANDLED:
            return HANDLED[func](*args, **kwargs)
        try:
            with np.errstate(all='ignore'):
                r_sh = func(*shadow(args), **shadow(kwargs))
        except Exception:
            r_sh = None
        r = func(*unwrap(args), **unwrap(kwargs))
        return rewrap(r, r_sh)

    # operators -> ufuncs
    def _b(ufunc):
        def f(self, o):
            if isinstance(o, (str, type(None))):
                return NotImplemented
            return ufunc(self, o)
        return f

    def _rb(ufunc):
        def f(self, o):
            return ufunc(o, self)
        return f

    def _ib(ufunc):
        def f(self, o):
            return ufunc(self, o, out=(self,))
        return f

    __add__ = _b(np.add); __radd__ = _rb(np.add); __iadd__ = _ib(np.add)
    __sub__ = _b(np.subtract); __rsub__ = _rb(np.subtract); __isub__ = _ib(np.subtract)
    __mul__ = _b(np.multiply); __rmul__ = _rb(np.multiply); __imul__ = _ib(np.multiply)
    __truediv__ = _b(np.divide); __rtruediv__ = _rb(np.divide); __itruediv__ = _ib(np.divide)
    __pow__ = _b(np.power); __rpow__ = _rb(np.power)
    __matmul__ = _b(np.matmul); __rmatmul__ = _rb(np.matmul)
    __lt__ = _b(np.less); __le__ = _b(np.less_equal); __gt__ = _b(np.greater); __ge__ = _b(np.greater_equal)
    __eq__ = _b(np.equal); __ne__ = _b(np.not_equal)
    __and__ = _b(np.logical_and); __or__ = _b(np.logical_or); __xor__ = _b(np.logical_xor)
    __rand__ = _rb(np.logical_and); __ror__ = _rb(np.logical_or)

    def __neg__(self):
        return np.negative(self)

    def __pos__(self):
        return self

    def __invert__(self):
        return np.logical_not(self)

    def __abs__(self):
        return np.absolute(self)

    __hash__ = None

    # methods delegating to numpy functions
    def sum(self, axis=None, keepdims=False, dtype=None, **kw): return np.sum(self, axis=axis, keepdims=keepdims)
    def mean(self, axis=None, keepdims=False, **kw): return np.mean(self, axis=axis, keepdims=keepdims)
    def prod(self, axis=None, keepdims=False, **kw): return np.prod(self, axis=axis, keepdims=keepdims)
    def cumsum(self, axis=None, **kw): return np.cumsum(self, axis=axis)
    def cumprod(self, axis=None, **kw): return np.cumprod(self, axis=axis)
    def all(self, axis=None, keepdims=False, **kw): return np.all(self, axis=axis, keepdims=keepdims)
    def any(self, axis=None, keepdims=False, **kw): return np.any(self, axis=axis, keepdims=keepdims)
    def max(self, axis=None, keepdims=False, **kw): return np.amax(self, axis=axis, keepdims=keepdims)
    def min(self, axis=None, keepdims=False, **kw): return np.amin(self, axis=axis, keepdims=keepdims)
    def argmax(self, axis=None, **kw): return np.argmax(self, axis=axis)
    def argmin(self, axis=None, **kw): return np.argmin(self, axis=axis)
    def trace(self, offset=0, axis1=0, axis2=1, **kw): return np.trace(self, offset=offset, axis1=axis1, axis2=axis2)
    def dot(self, o): return np.dot(self, o)
    def clip(self, lo=None, hi=None, **kw): return np.clip(self, lo, hi)

    def reshape(self, *shape, **kw):
        if len(shape) == 1 and isinstance(shape[0], (tuple, list)):
            shape = shape[0]
        return SymArray(self._a.reshape(*[int(s) for s in shape]), self.dtype)

    def transpose(self, *axes):
        if len(axes) == 1 and isinstance(axes[0], (tuple, list)):
            axes = tuple(axes[0])
        return SymArray(self._a.transpose(*axes), self.dtype)

    def swapaxes(self, a, b): return SymArray(self._a.swapaxes(a, b), self.dtype)
    def ravel(self, order='C'): return SymArray(self._a.ravel(), self.dtype)
    def flatten(self, order='C'): return SymArray(self._a.flatten(), self.dtype)
    def squeeze(self, axis=None): return SymArray(self._a.squeeze(axis), self.dtype)
    def repeat(self, n, axis=None): return SymArray(self._a.repeat(n, axis), self.dtype)
    def tolist(self): return self._a.tolist()
    def view(self, *a, **k): return SymArray(self._a.view(), self.dtype)
    def fill(self, v): self[...] = v
    def setflags(self, write=None, **k): self._a.setflags(write=write)


def _real_dtype(dt):
    return np.dtype(np.float32) if dt == np.complex64 else np.dtype(np.float64)


def _map(f, a, *others):
    out = np.empty(a.shape, dtype=object)
    if a.ndim == 0:
        out[()] = f(a[()], *[o[()] for o in others])
        return out
    for idx in np.ndindex(a.shape):
        out[idx] = f(a[idx], *[o[idx] for o in others])
    return out


def _conc_index(idx):
    def one(i):
        if isinstance(i, SymArray):
            a = i._a
            if i.dtype.kind == 'b':
                out = np.empty(a.shape, dtype=bool)
                for j in np.ndindex(a.shape):
                    out[j] = bool(a[j])       # may fork
                return out
            out = np.empty(a.shape, dtype=np.int64)
            for j in np.ndindex(a.shape):
                e = a[j]
                if not (isinstance(e, SR) and e.is_conc and not e.is_inf and e.v.denominator == 1):
                    raise Unsupported('symbolic value used as an index')
                out[j] = int(e.v)
            return out if out.ndim else int(out)
        if isinstance(i, list) and has_sym(i):
            return one(lift(i))
        return i
    if isinstance(idx, tuple):
        return tuple(one(i) for i in idx)
    return one(idx)


def _bc(*arrs):
    return np.broadcast_arrays(*[a._a for a in arrs])


def _elementwise(f, dtype_fn):
    def g(*ins):
        arrs = _bc(*ins)
        dt = dtype_fn(*[i.dtype for i in ins])
        return SymArray(_coerce_obj(_map(f, *arrs), dt), dt)
    return g


def _res(*d):
    return np.result_type(*d)


def _bool(*d):
    return np.dtype(bool)


def _cplx_ge(a, b):
    """NumPy orders complex numbers lexicographically (real part first)"""
    a, b = SC(a), SC(b)
    return (a.re > b.re) | ((a.re == b.re) & (a.im >= b.im))


def _scalar_max(a, b):
    if isinstance(a, SB) or isinstance(b, SB):
        a, b = SR(a), SR(b)
    if isinstance(a, (SC, complex)) or isinstance(b, (SC, complex)):
        return ite(_cplx_ge(a, b), SC(a), SC(b))
    return ite(a >= b, a, b)


def _scalar_min(a, b):
    if isinstance(a, SB) or isinstance(b, SB):
        a, b = SR(a), SR(b)
    if isinstance(a, (SC, complex)) or isinstance(b, (SC, complex)):
        return ite(_cplx_ge(b, a), SC(a), SC(b))
    return ite(a <= b, a, b)


def _sign(a):
    return ite(a > 0, SR(1), ite(a < 0, SR(-1), SR(0)))


UF[np.maximum] = _elementwise(_scalar_max, _res)
UF[np.minimum] = _elementwise(_scalar_min, _res)
UF[np.fmax] = UF[np.maximum]
UF[np.fmin] = UF[np.minimum]
for _u, _op in [(np.less, '__lt__'), (np.less_equal, '__le__'), (np.greater, '__gt__'),
                (np.greater_equal, '__ge__'), (np.equal, '__eq__'), (np.not_equal, '__ne__')]:
    UF[_u] = _elementwise((lambda op: (lambda a, b: getattr(a, op)(b)))(_op), _bool)
UF[np.logical_and] = _elementwise(lambda a, b: SB(a) & SB(b), _bool)
UF[np.logical_or] = _elementwise(lambda a, b: SB(a) | SB(b), _bool)
UF[np.logical_xor] = _elementwise(lambda a, b: SB(a) ^ SB(b), _bool)
UF[np.logical_not] = _elementwise(lambda a: ~SB(a), _bool)
UF[np.bitwise_and] = UF[np.logical_and]
UF[np.bitwise_or] = UF[np.logical_or]
UF[np.invert] = UF[np.logical_not]
UF[np.isfinite] = _elementwise(lambda a: SB(not (isinstance(a, SR) and a.is_inf)), _bool)
UF[np.isnan] = _elementwise(lambda a: SB(False), _bool)
UF[np.isinf] = _elementwise(lambda a: SB(isinstance(a, SR) and a.is_inf), _bool)
UF[np.absolute] = _elementwise(lambda a: abs(SR(a)) if isinstance(a, SB) else abs(a),
                               lambda d: _real_dtype(d) if d.kind == 'c' else (np.dtype(float) if d.kind == 'b' else d))
UF[np.conjugate] = _elementwise(lambda a: a.conjugate() if not isinstance(a, SB) else a, lambda d: d)
UF[np.sign] = _elementwise(_sign, lambda d: d)
UF[np.negative] = _elementwise(lambda a: -a, lambda d: d)
UF[np.positive] = _elementwise(lambda a: a, lambda d: d)
UF[np.square] = _elementwise(lambda a: a * a, lambda d: d)
UF[np.reciprocal] = _elementwise(lambda a: 1 / a, lambda d: d)


def _float_dt(d):
    return d if d.kind in 'fc' else np.dtype(np.float64)


UF[np.sqrt] = _elementwise(lambda a: (SR(a) if isinstance(a, SB) else a).sqrt(), _float_dt)
UF[np.exp] = _elementwise(lambda a: a.exp(), _float_dt)
UF[np.log] = _elementwise(lambda a: a.log(), _float_dt)
UF[np.log10] = _elementwise(lambda a: a.log10(), _float_dt)
UF[np.cos] = _elementwise(lambda a: a.cos(), _float_dt)
UF[np.sin] = _elementwise(lambda a: a.sin(), _float_dt)


def _canon_sorted(vals):
    """operands of a commutative/associative fold in a canonical order (so that permuted runs build the same term)"""
    from .core import key_of
    def k(e):
        if isinstance(e, SR):
            return (0, str(e.v)) if e.is_conc else (1, key_of(e.z))
        if isinstance(e, SC):
            return (2, key_of(e.re.z) + '|' + key_of(e.im.z))
        return (3, str(e))
    try:
        return sorted(vals, key=k)
    except Exception:
        return list(vals)


def _reduce_cmp(a, axis, keepdims, f, canon=False):
    a = lift(a)
    arr = a._a
    if axis is None:
        flat = list(arr.reshape(-1))
        if not flat:
            raise ValueError('zero-size array to reduction operation which has no identity')
        if canon:
            flat = _canon_sorted(flat)
        acc = flat[0]
        for i in range(1, len(flat)):
            acc = f(acc, flat[i])
        b = np.empty((1,) * arr.ndim if keepdims else (), dtype=object)
        b[...] = acc
        return SymArray(b, a.dtype)
    if isinstance(axis, (tuple, list)):
        r = a
        for ax in sorted([x % arr.ndim for x in axis], reverse=True):
            r = _reduce_cmp(r, ax, True, f, canon)
        if not keepdims:
            r = SymArray(r._a.squeeze(tuple(x % arr.ndim for x in axis)), r.dtype)
        return r
    axis = axis % arr.ndim
    moved = np.moveaxis(arr, axis, -1)
    out = np.empty(moved.shape[:-1], dtype=object)
    for idx in np.ndindex(out.shape):
        vals = list(moved[idx])
        if canon:
            vals = _canon_sorted(vals)
        acc = vals[0]
        for v in vals[1:]:
            acc = f(acc, v)
        out[idx] = acc
    if keepdims:
        out = np.expand_dims(out, axis)
    return SymArray(out, a.dtype)


@implements(np.amax, np.max)
def _amax(a, axis=None, out=None, keepdims=False, **kw):
    return _reduce_cmp(a, axis, keepdims, _scalar_max, canon=True)


@implements(np.amin, np.min)
def _amin(a, axis=None, out=None, keepdims=False, **kw):
    return _reduce_cmp(a, axis, keepdims, _scalar_min, canon=True)


@implements(np.all)
def _all(a, axis=None, out=None, keepdims=False, **kw):
    a = lift(a)
    b = SymArray(_map(lambda e: SB(e), a._a), bool)
    return _reduce_cmp(b, axis, keepdims, lambda x, y: SB(x) & SB(y))


@implements(np.any)
def _any(a, axis=None, out=None, keepdims=False, **kw):
    a = lift(a)
    b = SymArray(_map(lambda e: SB(e), a._a), bool)
    return _reduce_cmp(b, axis, keepdims, lambda x, y: SB(x) | SB(y))


@implements(np.where)
def _where(c, x=None, y=None):
    if x is None:
        raise Unsupported('np.where with one argument on symbolic data')
    c, x, y = lift(c), lift(x), lift(y)
    cb, xb, yb = _bc(c, x, y)
    dt = np.result_type(x.dtype, y.dtype)
    return SymArray(_coerce_obj(_map(lambda cc, aa, bb: ite(SB(cc), aa, bb), cb, xb, yb), dt), dt)


@implements(np.clip)
def _clip(a, a_min=None, a_max=None, out=None, **kw):
    r = lift(a)
    if a_min is not None:
        r = np.maximum(r, a_min)
    if a_max is not None:
        r = np.minimum(r, a_max)
    return r


@implements(np.linalg.norm)
def _norm(x, ord=None, axis=None, keepdims=False):
    x = lift(x)
    if axis is None and x.ndim > 1 and ord is None:
        x = x.reshape(-1)
        axis = 0
    if ord is None or ord == 2:
        sq = np.sum((x.real * x.real + x.imag * x.imag) if x.dtype.kind == 'c' else x * x, axis=axis, keepdims=keepdims)
        sq = lift(sq)
        return SymArray(_map(lambda e: e.sqrt(), sq._a), _real_dtype(x.dtype) if x.dtype.kind == 'c' else _float_dt(x.dtype))
    if ord == 1:
        return np.sum(np.absolute(x), axis=axis, keepdims=keepdims)
    raise Unsupported(('norm ord', ord))


@implements(np.iscomplexobj)
def _iscomplexobj(x):
    return lift(x).dtype.kind == 'c'


@implements(np.isrealobj)
def _isrealobj(x):
    return lift(x).dtype.kind != 'c'


@implements(np.iscomplex)
def _iscomplex(x):
    x = lift(x)
    return SymArray(_map(lambda e: SB(SC(e).im != 0), x._a), bool)


@implements(np.real)
def _real(x):
    return lift(x).real


@implements(np.imag)
def _imag(x):
    return lift(x).imag


@implements(np.conj, np.conjugate)
def _conjf(x, **kw):
    return UF[np.conjugate](lift(x))


@implements(np.ascontiguousarray, np.asarray, np.asanyarray, np.asfortranarray)
def _asarray(a, dtype=None, **kw):
    a = lift(a)
    return a if dtype is None or np.dtype(dtype) == a.dtype else a.astype(dtype)


@implements(np.array)
def _array(a, dtype=None, copy=True, **kw):
    r = _asarray(a, dtype=dtype)
    return r.copy() if copy and r is a else r


@implements(np.copy)
def _copy(a, **kw):
    return lift(a).copy()


@implements(np.broadcast_arrays)
def _broadcast_arrays(*args, **kw):
    ls = [lift(a) for a in args]
    bs = np.broadcast_arrays(*[l._a for l in ls])
    return [SymArray(b, l.dtype) for b, l in zip(bs, ls)]


def full(shape, val, dtype=float):
    dt = np.dtype(dtype)
    if isinstance(shape, (int, np.integer)):
        shape = (int(shape),)
    shape = tuple(int(s) for s in shape)
    out = np.empty(shape, dtype=object)
    if isinstance(val, SymArray):
        out[...] = np.broadcast_to(val._a, shape)
    else:
        w = _wrap_scalar(val, dt)
        flat = out.reshape(-1)
        for i in range(flat.shape[0]):
            flat[i] = w
    return SymArray(_coerce_obj(out, dt), dt)


HANDLED[np.zeros_like] = lambda a, dtype=None, shape=None, **kw: full(lift(a).shape if shape is None else shape, 0, lift(a).dtype if dtype is None else dtype) if np.dtype(lift(a).dtype if dtype is None else dtype).kind in 'fcb' else np.zeros(lift(a).shape if shape is None else shape, dtype=dtype)
HANDLED[np.ones_like] = lambda a, dtype=None, shape=None, **kw: full(lift(a).shape if shape is None else shape, 1, lift(a).dtype if dtype is None else dtype)
HANDLED[np.empty_like] = lambda a, dtype=None, shape=None, **kw: full(lift(a).shape if shape is None else shape, 0, lift(a).dtype if dtype is None else dtype)
HANDLED[np.full_like] = lambda a, fill_value, dtype=None, shape=None, **kw: full(lift(a).shape if shape is None else shape, fill_value, lift(a).dtype if dtype is None else dtype)


def _first_index(vec, better):
    """fork: index of the first extremum (NumPy argmax/argmin semantics: first occurrence), by a
    linear scan of atomic pairwise comparisons (decisions are cached per path)"""
    n = len(vec)
    if n == 0:
        raise ValueError('attempt to get argmax of an empty sequence')
    best = 0
    for j in range(1, n):
        if bool(better(vec[j], vec[best], True)):
            best = j
    return best


def _gt(a, b, strict):
    a, b = (SR(a) if isinstance(a, SB) else a), (SR(b) if isinstance(b, SB) else b)
    if isinstance(a, SC) or isinstance(b, SC):
        a, b = SC(a), SC(b)      # NumPy: lexicographic order on (real, imag)
        if strict:
            return (a.re > b.re) | ((a.re == b.re) & (a.im > b.im))
        return (a.re > b.re) | ((a.re == b.re) & (a.im >= b.im))
    return (a > b) if strict else (a >= b)


def _lt(a, b, strict):
    a, b = (SR(a) if isinstance(a, SB) else a), (SR(b) if isinstance(b, SB) else b)
    return (a < b) if strict else (a <= b)


def _arg(a, axis, better):
    a = lift(a)
    arr = a._a
    if a.dtype.kind == 'c' and better is not _gt:
        raise Unsupported('argmin of complex')
    if axis is None:
        return np.int64(_first_index(arr.reshape(-1), better))
    moved = np.moveaxis(arr, axis, -1)
    out = np.empty(moved.shape[:-1], dtype=np.int64)
    for idx in np.ndindex(out.shape):
        out[idx] = _first_index(moved[idx], better)
    return out if out.ndim else np.int64(out)


@implements(np.argmax)
def _argmax(a, axis=None, out=None, **kw):
    return _arg(a, axis, _gt)


@implements(np.argmin)
def _argmin(a, axis=None, out=None, **kw):
    return _arg(a, axis, _lt)


def _sort_perm(vec):
    """fork over the permutation that sorts vec ascending (stable); returns index list"""
    idx = list(range(len(vec)))
    # insertion sort with forking comparisons
    out = []
    for i in idx:
        pos = len(out)
        while pos > 0 and bool(_lt(vec[i], vec[out[pos - 1]], True)):
            pos -= 1
        out.insert(pos, i)
    return out


@implements(np.argsort)
def _argsort(a, axis=-1, **kw):
    a = lift(a)
    if axis is None:
        return np.array(_sort_perm(a._a.reshape(-1)), dtype=np.int64)
    moved = np.moveaxis(a._a, axis, -1)
    out = np.empty(moved.shape, dtype=np.int64)
    for idx in np.ndindex(moved.shape[:-1]):
        out[idx] = _sort_perm(moved[idx])
    return np.moveaxis(out, -1, axis)


@implements(np.sort)
def _sort(a, axis=-1, **kw):
    a = lift(a)
    if axis is None:
        flat = a._a.reshape(-1)
        p = _sort_perm(flat)
        return SymArray(flat[p], a.dtype)
    p = _argsort(a, axis=axis)
    return SymArray(np.take_along_axis(a._a, p, axis=axis), a.dtype)


@implements(np.percentile)
def _percentile(a, q, axis=None, **kw):
    a = lift(a)
    if kw.get('method', 'linear') != 'linear' or kw.get('interpolation', 'linear') != 'linear':
        raise Unsupported('percentile method')
    if isinstance(q, (SymArray, SR)):
        q = float(lift(q).item())
    if np.ndim(q) != 0:
        raise Unsupported('vector q')
    s = _sort(a, axis=axis)
    if axis is None:
        s = s.reshape(1, -1)
        ax = -1
    else:
        ax = axis
    moved = np.moveaxis(s._a, ax, -1)
    n = moved.shape[-1]
    # numpy 'linear': virtual index (n-1)*q/100
    pos = Fraction(q).limit_denominator(10**12) * (n - 1) / 100 if not isinstance(q, Fraction) else q * (n - 1) / 100
    pos_f = float(q) / 100 * (n - 1)
    lo = int(np.floor(pos_f))
    hi = min(lo + 1, n - 1)
    g = Fraction(pos_f) - lo
    out = np.empty(moved.shape[:-1], dtype=object)
    for idx in np.ndindex(out.shape):
        out[idx] = moved[idx][lo] + (moved[idx][hi] - moved[idx][lo]) * SR(g)
    r = SymArray(out, a.dtype)
    return r if axis is not None else r.reshape(())


@implements(np.isclose)
def _isclose(a, b, rtol=1e-5, atol=1e-8, equal_nan=False):
    a, b = lift(a), lift(b)

    def one(x, y):
        x, y = SR(x), SR(y)
        if x.is_inf or y.is_inf:
            return SB(x.is_inf and y.is_inf and x.v == y.v)
        return abs(x - y) <= SR(atol) + SR(rtol) * abs(y)
    ab, bb = np.broadcast_arrays(a._a, b._a)
    return SymArray(_map(one, ab, bb), bool)


@implements(np.allclose)
def _allclose(a, b, **kw):
    return bool(np.all(_isclose(a, b, **kw)))


@implements(np.nan_to_num)
def _nan_to_num(x, **kw):
    return lift(x)


@implements(np.angle)
def _angle(zarr, deg=False):
    zarr = lift(zarr)
    out = np.empty(zarr.shape, dtype=object)
    for idx in np.ndindex(zarr.shape):
        e = SC(zarr._a[idx])
        k = (key_of_pair(e))
        if k not in CTX.ang_reg:
            th = CTX.fresh('theta'); c = CTX.fresh('cos'); s = CTX.fresh('sin')
            mag = abs(e)
            CTX.fact(c * c + s * s == 1)
            CTX.fact(z3.And(c >= -1, c <= 1, s >= -1, s <= 1), simple=True)
            CTX.fact(e.re.z == mag.z * c)
            CTX.fact(e.im.z == mag.z * s)
            CTX.fact(z3.Implies(z3.And(e.re.z == 0, e.im.z == 0), z3.And(c == 1, s == 0)))
            CTX.ang_reg[k] = (th, c, s)
        out[idx] = SR(CTX.ang_reg[k][0])
    return SymArray(out, _real_dtype(zarr.dtype) if zarr.dtype.kind == 'c' else zarr.dtype)


def key_of_pair(e):
    from .core import key_of
    return key_of(e.re.z) + '|' + key_of(e.im.z)


@implements(np.isscalar)
def _isscalar(x):
    return False


@implements(np.result_type)
def _result_type(*a):
    return np.result_type(*[x.dtype if isinstance(x, SymArray) else x for x in a])


@implements(np.shape)
def _shape(a):
    return lift(a).shape


@implements(np.ndim)
def _ndim(a):
    return lift(a).ndim


@implements(np.size)
def _size(a, axis=None):
    return lift(a).size if axis is None else lift(a).shape[axis]


@implements(np.mean)
def _mean(a, axis=None, dtype=None, out=None, keepdims=False, **kw):
    a = lift(a)
    s = np.sum(a, axis=axis, keepdims=keepdims)
    if axis is None:
        n = a.size
    elif isinstance(axis, (tuple, list)):
        n = int(np.prod([a.shape[x] for x in axis]))
    else:
        n = a.shape[axis]
    r = lift(s) / n
    if a.dtype.kind in 'bi':
        r = r.astype(np.float64, copy=False)
    return r


@implements(np.var)
def _var(a, axis=None, keepdims=False, **kw):
    a = lift(a)
    m = _mean(a, axis=axis, keepdims=True)
    d = a - m
    return _mean(np.absolute(d) ** 2 if a.dtype.kind == 'c' else d * d, axis=axis, keepdims=keepdims)


@implements(np.round, np.around)
def _around(a, decimals=0, **kw):
    raise Unsupported('rounding of symbolic values')


# ----------------------------------------------------------------------------
# constructors for symbolic inputs
# ----------------------------------------------------------------------------
def sym_real(name, shape, dtype=np.float64):
    a = np.empty(shape, dtype=object)
    for idx in np.ndindex(*shape):
        a[idx] = SR(z3.Real(name + ''.join('_%d' % i for i in idx)))
    return SymArray(a, dtype)


def sym_complex(name, shape, dtype=np.complex128):
    a = np.empty(shape, dtype=object)
    for idx in np.ndindex(*shape):
        s = name + ''.join('_%d' % i for i in idx)
        a[idx] = SC(SR(z3.Real(s + 'r')), SR(z3.Real(s + 'i')))
    return SymArray(a, dtype)


def sym_bool(name, shape):
    a = np.empty(shape, dtype=object)
    for idx in np.ndindex(*shape):
        a[idx] = SB(z3.Bool(name + ''.join('_%d' % i for i in idx)))
    return SymArray(a, bool)


# ----------------------------------------------------------------------------
# numpy proxy for entry points that do not dispatch (np.asarray, np.array, creation, ...)
# ----------------------------------------------------------------------------
class _NDMeta(type):
    def __instancecheck__(cls, x):
        return isinstance(x, (np.ndarray, SymArray))


class _NDArray(metaclass=_NDMeta):
    pass


def _p_asarray(a, dtype=None, **kw):
    if has_sym(a):
        return _asarray(a, dtype=dtype)
    return np.asarray(a, dtype=dtype, **kw)


def _p_array(a, dtype=None, copy=True, **kw):
    if has_sym(a):
        r = _asarray(a, dtype=dtype)
        return r.copy() if (copy and r is a) else r
    return np.array(a, dtype=dtype, copy=copy, **kw)


def _creates(fn_name, fill):
    real = getattr(np, fn_name)

    def f(shape, *args, dtype=None, **kw):
        if fn_name == 'full':
            val = args[0] if args else kw.pop('fill_value')
            dt = np.dtype(dtype) if dtype is not None else (lift(val).dtype if has_sym(val) else np.asarray(val).dtype)
        else:
            val = fill
            if args:
                dtype = args[0]
            dt = np.dtype(float if dtype is None else dtype)
        if dt.kind in 'fc':
            if isinstance(shape, (list, tuple)):
                shape = tuple(int(s) for s in shape)
            return full(shape, val, dt)
        if fn_name == 'full':
            return real(shape, val, dtype=dtype, **kw)
        return real(shape, dtype=dtype, **kw)
    return f


def _p_eye(n, m=None, k=0, dtype=float, **kw):
    r = np.eye(n, m, k, dtype=dtype)
    return lift(r) if r.dtype.kind in 'fc' else r


def _p_reduce(name):
    real = getattr(np, name)

    def f(a, *args, **kw):
        if not isinstance(a, SymArray) and has_sym(a):
            a = lift(a)
        return real(a, *args, **kw)
    return f


def _p_isscalar(x):
    if isinstance(x, SymArray):
        return False
    return np.isscalar(x)


class NPProxy:
    """stands in for the module global `np` of the pb_bss modules in the harness process"""

    def __init__(self, real, overrides):
        object.__setattr__(self, '_real', real)
        object.__setattr__(self, '_ov', overrides)

    def __getattr__(self, name):
        ov = object.__getattribute__(self, '_ov')
        if name in ov:
            return ov[name]
        return getattr(object.__getattribute__(self, '_real'), name)


class RandomStub:
    """np.random replacement: arbitrary values in the documented range; seeded stream -> same symbols"""

    def __init__(self):
        self.calls = 0
        self.seed_value = None

    def seed(self, s=None):
        self.seed_value = s
        self.calls = 0

    def _name(self, kind):
        self.calls += 1
        return f'rng{self.seed_value}_{kind}{self.calls}'

    def uniform(self, low=0.0, high=1.0, size=None):
        shape = () if size is None else tuple(size) if isinstance(size, (tuple, list)) else (int(size),)
        nm = self._name('u')
        a = sym_real(nm, shape)
        for e in a._a.ravel():
            CTX.fact(z3.And(e.z > zr_(low), e.z < zr_(high)), simple=True)
        return a

    def __getattr__(self, name):
        raise Unsupported('np.random.%s is not modelled' % name)


def zr_(x):
    from .core import zr
    return zr(float(x))


RANDOM = RandomStub()

NP = NPProxy(np, {
    'asarray': _p_asarray, 'asanyarray': _p_asarray, 'ascontiguousarray': _p_asarray,
    'asfortranarray': _p_asarray,
    'array': _p_array,
    'zeros': _creates('zeros', 0), 'ones': _creates('ones', 1), 'empty': _creates('empty', 0),
    'full': _creates('full', None), 'eye': _p_eye, 'identity': lambda n, dtype=float: _p_eye(n, dtype=dtype),
    'sum': _p_reduce('sum'), 'mean': _p_reduce('mean'), 'max': _p_reduce('max'), 'min': _p_reduce('min'),
    'amax': _p_reduce('amax'), 'amin': _p_reduce('amin'), 'prod': _p_reduce('prod'),
    'maximum': lambda a, b, **kw: np.maximum(lift(a) if has_sym(a) else a, lift(b) if has_sym(b) else b, **kw),
    'minimum': lambda a, b, **kw: np.minimum(lift(a) if has_sym(a) else a, lift(b) if has_sym(b) else b, **kw),
    'stack': lambda arrs, *a, **k: np.stack([lift(x) if has_sym(x) else x for x in arrs], *a, **k),
    'isscalar': _p_isscalar,
    'ndarray': _NDArray,
    'random': RANDOM,
})


def install(*modules):
    for m in modules:
        if getattr(m, 'np', None) is np:
            m.np = NP


def uninstall(*modules):
    for m in modules:
        if getattr(m, 'np', None) is NP:
            m.np = np
