import argparse, os, sys
VERIF = os.path.dirname(os.path.dirname(os.path.abspath(__file__)))
sys.path.insert(0, VERIF)
os.chdir(VERIF)
ap = argparse.ArgumentParser()
ap.add_argument('prop')
ap.add_argument('--tier', default=os.environ.get('VERIF_TIER', 'quick'))
ap.add_argument('--replay')
ap.add_argument('--only')
ap.add_argument('--jobs', type=int)
ap.add_argument('-v', action='store_true')
a = ap.parse_args()
if __name__ == '__main__':
    from symnp import runner
    sys.exit(runner.main(a.prop.upper(), a.tier, replay=a.replay, only=a.only, jobs=a.jobs, verbose=a.v))
