#!/usr/bin/env python3
"""(re)generate /verif/seeded/<id>/meta.json from notes.txt + detection results (seeded/results.json)"""
import json, os, glob
base = '/verif/seeded'
res = json.load(open(base + '/results.json')) if os.path.exists(base + '/results.json') else {}
for d in sorted(glob.glob(base + '/C*-*')):
    sid = os.path.basename(d)
    notes = open(d + '/notes.txt').read() if os.path.exists(d + '/notes.txt') else ''
    meta = dict(
        id=sid, property=sid.split('-')[0],
        breaks=notes.strip()[:1500],
        needs_to_manifest='see notes (trigger condition)',
        confirmed_by=['bin/verify_seed: patch applies to a scratch worktree of /repo HEAD; demo.py exits 0 without and non-zero with the patch; '
                      'baseline test command passes the same 542 stable tests with the patch'],
        detection=res.get(sid, 'not yet run'),
    )
    json.dump(meta, open(d + '/meta.json', 'w'), indent=1)
print('meta written for', len(glob.glob(base + '/C*-*')))
