import json,sys
# usage: slow.py C01  -> needs evidence dump with all obligations (VERIF_DUMP=1)
d=json.load(open(f'/verif/scratch/{sys.argv[1]}.dump.json'))
rows=[]
for c,r in d.items():
    if c=='_cosim': continue
    for o in r['obls']:
        rows.append((o['secs'],c,o['label'],o['verdict']))
rows.sort(reverse=True)
for r in rows[:int(sys.argv[2]) if len(sys.argv)>2 else 25]: print('%.2f %s %s %s'%r)
print('total',sum(r[0] for r in rows))
