#!/usr/bin/env python3
"""Generates MANIFEST.json from the table below (keeps it valid at all times)."""
import json, os
V = '/verif'
props = [json.loads(l) for l in open(V + '/properties.jsonl')]
CLAIMED = json.load(open(V + '/claims.json'))        # id -> dict(text, note, technique, design_ref)
NA = json.load(open(V + '/not_applicable.json'))      # id -> reason
checks = []
for p in props:
    i = p['id']
    if i in CLAIMED:
        c = CLAIMED[i]
        checks.append(dict(
            property_id=i,
            quick_cmd='./check %s --tier quick' % i,
            thorough_cmd='./check %s --tier thorough' % i,
            evidence_file='/verif/evidence/%s.json' % i,
            replay_cmd_template='./check %s --replay {path}' % i,
            engine='symnp',
            level_claimed=dict(category='other', text=c['text'], design_ref=c.get('design_ref', 'DESIGN.md §4 ' + i)),
            level_note=c['note'],
            technique=c.get('technique', 'bounded symbolic execution of the real NumPy code (SymNP) + z3 SMT queries; counterexamples replayed on the real code'),
        ))
na = [dict(property_id=p['id'], reason=NA.get(p['id'], 'check not built yet in this round (no claim made)')) for p in props if p['id'] not in CLAIMED]
m = dict(
    version=1,
    setup_cmd='bin/ensure_env',
    hooks=dict(guard='PB_BSS_VERIF', enable='no source hooks: harnesses import /repo unmodified and rebind module globals in the harness process only (PB_BSS_VERIF=1 is exported for completeness)',
               baseline_off_cmd='bin/baseline_check /repo', source_commits=[], add_only=True),
    engines=[dict(name='symnp', path='/verif/symnp', serves_properties=sorted(CLAIMED),
                  kind_free_text='symbolic executor for NumPy programs (object arrays of z3 real terms, __array_ufunc__/__array_function__), contract stubs for LAPACK/SciPy/sklearn, z3 4.x/5.x portfolio; CrossHair for the pure-Python alignment plan'),
             ],
    checks=checks,
    not_applicable=na,
    notes='Exit codes of ./check: 0 held (only KNOWN-FINDING lines), 1 reproduced violation, 2 harness/environment error, 3 inconclusive (solver unknown or spurious candidate). Bounds per case are listed in each evidence file.',
)
json.dump(m, open(V + '/MANIFEST.json', 'w'), indent=1)
print('claimed', len(checks), 'n/a', len(na))
