import sys, os, cProfile, pstats
sys.path.insert(0,'/repo'); sys.path.insert(1,'/verif')
from symnp import runner
prop, case = sys.argv[1], sys.argv[2]
cProfile.run("r = runner.run_sym(prop, 'quick', case, 0)", '/tmp/prof.out')
print(r['paths'], len(r['obls']), r['error'], r['stats'])
pstats.Stats('/tmp/prof.out').sort_stats('cumulative').print_stats(35)
