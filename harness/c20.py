"""C20  Calls are pure: inputs untouched, results reproducible and history-free."""
import itertools
import numpy as np
from symnp.runner import Case
from harness import mm_common as mm

OUTSIDE = ('sequences of more than 3 earlier fits; iteration budgets n > 3 (the split clause is a one-step composition '
           'argument beyond); global state other than NumPy\'s RNG and the trainer objects; the beamformer / metric entry points '
           'are covered with read-only inputs in C10-C13, C19')


def _same_model(env, label, a, b):
    pa, pb = mm.params(a), mm.params(b)
    for k, v in pa.items():
        if hasattr(v, 'shape'):
            env.eq('%s:%s' % (label, k), pb[k], v)


def h_fit_pure(env, model='cacgmm', K=2, N=3, D=2, lead=()):
    """read-only inputs accepted and untouched; repeating the call reproduces the result"""
    if model in ('gcacgmm', 'vmfcacgmm'):
        lead = (1,)
        y = env.cplx('y', lead + (N, D), lo=-2, hi=2)
        emb = env.real('e', lead + (N, 2), lo=-2, hi=2)
    else:
        y = mm.observations(env, model, lead, N, D)
        emb = None
    init = env.real('g', tuple(lead) + (K, N), lo=0.05, hi=1.0)
    sal = env.real('sal', tuple(lead) + (N,), lo=0.1, hi=2.0)
    y0, init0, sal0 = y.copy(), init.copy(), sal.copy()
    emb0 = None if emb is None else emb.copy()
    for a in (y, init, sal) + ((emb,) if emb is not None else ()):
        env.readonly(a)
    m1 = mm.fit(model, y, init, iterations=2, emb=emb, saliency=sal)
    p1 = mm.predict(model, m1, y, emb)
    env.eq('observation_untouched', y, y0)
    env.eq('initialization_untouched', init, init0)
    env.eq('saliency_untouched', sal, sal0)
    if emb is not None:
        env.eq('embedding_untouched', emb, emb0)
    m2 = mm.fit(model, y, init, iterations=2, emb=emb, saliency=sal)
    _same_model(env, 'repeat', m1, m2)
    env.eq('repeat:posterior', mm.predict(model, m2, y, emb), p1)


def h_from_covariance(env, norm='trace', lead=(2,), D=2):
    from pb_bss.distribution import ComplexAngularCentralGaussian
    L = env.cplx('L', tuple(lead) + (D, D), lo=-2, hi=2)
    cov = L @ np.conjugate(np.swapaxes(L, -1, -2))
    cov0 = cov.copy()
    env.readonly(cov)
    m = ComplexAngularCentralGaussian.from_covariance(cov, eigenvalue_floor=1e-10, covariance_norm=norm)
    env.eq('covariance_untouched', cov, cov0)


def h_trainer_reuse(env, kind='cwmm', K=2, N=3, D=2):
    """a trainer object reused after other fits gives the same result as a fresh one; a different feature
    dimension is rejected"""
    from pb_bss import distribution as d
    Tr = {'cwmm': d.CWMMTrainer, 'cacgmm': d.CACGMMTrainer, 'gmm': d.GMMTrainer, 'vmfmm': d.VMFMMTrainer}[kind]
    cplx = kind in ('cwmm', 'cacgmm')
    mk = (lambda n, s: env.cplx(n, s, lo=-2, hi=2)) if cplx else (lambda n, s: env.real(n, s, lo=-2, hi=2))
    y1, y2 = mk('y1', (N, D)), mk('y2', (N + 1, D))
    g1, g2 = env.real('g1', (K, N), lo=0.05, hi=1), env.real('g2', (K + 1, N + 1), lo=0.05, hi=1)
    fresh = Tr().fit(y1, initialization=g1, iterations=2)
    t = Tr()
    t.fit(y2, initialization=g2, iterations=1)
    t.fit(y1, initialization=g1, iterations=1, weight_constant_axis=-2)
    again = t.fit(y1, initialization=g1, iterations=2)
    _same_model(env, 'reused_equals_fresh', fresh, again)
    if kind == 'cwmm':
        y3 = mk('y3', (N, D + 1))
        try:
            t.fit(y3, initialization=g1, iterations=1)
            env._record_plain('different_dimension_rejected', False, detail='no exception')
        except AssertionError:
            env._record_plain('different_dimension_rejected', True)


def h_split(env, n=2, splits=((1, 1),), K=2, N=3, D=2, lead=(), aligner=False, wca=(-1,)):
    """a cACGMM fit of n iterations equals any split into consecutive fits continued from the returned model"""
    from pb_bss.distribution import CACGMMTrainer
    from pb_bss.permutation_alignment import GreedyPermutationAlignment
    y = env.cplx('y', tuple(lead) + (N, D), lo=-2, hi=2)
    init = env.real('g', tuple(lead) + (K, N), lo=0.05, hi=1.0)
    kw = dict(weight_constant_axis=wca)
    if aligner:
        kw['inline_permutation_aligner'] = GreedyPermutationAlignment(similarity_metric='multiply')
    whole = CACGMMTrainer().fit(y, initialization=init, iterations=n, **kw)
    for sp in splits:
        m = CACGMMTrainer().fit(y, initialization=init, iterations=sp[0], **kw)
        for it in sp[1:]:
            m = CACGMMTrainer().fit(y, initialization=m, iterations=it, **kw)
        _same_model(env, 'split%s' % (sp,), whole, m)


def cases(tier):
    cs = []
    for model in mm.MODELS:
        cs.append(Case('fit_pure/%s' % model, h_fit_pure, dict(model=model), bounds='K=2 N=3 D=2 iterations=2, read-only inputs, with saliency',
                       lazy=True, timeout_ms=60000, allow=('ValueError',), cosim=1))
    for norm in ['trace', 'eigenvalue', False]:
        cs.append(Case('from_covariance/%s' % norm, h_from_covariance, dict(norm=norm), bounds='(2, D=2, D=2) read-only covariance', cosim=1))
    for kind in ['cwmm', 'cacgmm', 'gmm', 'vmfmm']:
        cs.append(Case('trainer_reuse/%s' % kind, h_trainer_reuse, dict(kind=kind), bounds='2 other fits (different N, K, options) before the compared fit',
                       lazy=True, timeout_ms=60000, allow=('ValueError',), cosim=1))
    cs.append(Case('split/n2', h_split, dict(n=2, splits=((1, 1),)), bounds='n=2 = 1+1, K=2 N=3 D=2', lazy=True, cosim=1))
    cs.append(Case('split/n3', h_split, dict(n=3, splits=((1, 2), (2, 1), (1, 1, 1)), N=2), bounds='n=3 = 1+2 = 2+1 = 1+1+1, K=2 N=2 D=2', lazy=True, cosim=1))
    cs.append(Case('split/n2_aligner', h_split, dict(n=2, splits=((1, 1),), N=2, lead=(3,), aligner=True, wca=(-3,)),
                   bounds='n=2 = 1+1 with inline greedy aligner, F=3 K=2 N=2 D=2, weight_constant_axis=(-3,)', lazy=True, cosim=8, max_paths=3000, budget_s=900))
    from harness import c14
    for metric, alg in [('multiply', 'greedy'), ('euclidean', 'optimal')]:
        cs.append(Case('align_pure/dhtv_%s' % metric, c14.h_aligner,
                       dict(kind='dhtv', metric=metric, algorithm=alg, K=2, F=3, T=2, readonly=True,
                            dhtv=dict(stft_size=4, segment_start=0, segment_width=2, segment_shift=1, main_iterations=1, sub_iterations=1)),
                       bounds='DHTV aligner on a read-only mask, K=2 F=3 T=2', lazy=True, cosim=1, max_paths=20000, budget_s=600))
    cs.append(Case('align_pure/greedy', c14.h_aligner, dict(kind='greedy', metric='euclidean', K=2, F=3, T=2, readonly=True),
                   bounds='greedy aligner on a read-only mask', lazy=True, cosim=1, max_paths=5000))
    return cs
