"""shared constructors for the beamformer harnesses"""
import numpy as np


def herm(x):
    return np.conjugate(np.swapaxes(x, -1, -2))


def pd_matrix(env, name, lead, D, lo_diag=0.3):
    """Hermitian positive definite matrices L L^H (L lower triangular, positive real diagonal): exactly
    the Hermitian PD matrices (Cholesky)"""
    L = env.cplx(name, tuple(lead) + (D, D), lo=-2, hi=2)
    if env.sym:
        from symnp.core import SC, SR
        from symnp.array import SymArray
        a = L._a.copy()
        for idx in np.ndindex(*a.shape):
            i, j = idx[-2], idx[-1]
            if j > i:
                a[idx] = SC(0)
            elif i == j:
                env.assume(a[idx].re >= lo_diag, 'noise PSD = L L^H with diag(L) in [%g, 2], |L_ij| <= 2' % lo_diag)
                a[idx] = SC(a[idx].re)
        L = SymArray(a, L.dtype)
    else:
        L = np.tril(L)
        for idx in np.ndindex(*L.shape[:-2]):
            for i in range(D):
                v = abs(L[idx + (i, i)].real)
                if v < lo_diag:
                    v = lo_diag + v
                L[idx + (i, i)] = v
    return L @ herm(L), L


def psd_rank1(env, a, sigma):
    """sigma * a a^H  for steering vectors a (..., D)"""
    return sigma * (a[..., :, None] * np.conjugate(a[..., None, :]))


def quad(env, u, M, v, D):
    """u^H M v with scalar loops (u, v lists of scalars, M accessor)"""
    tot = 0.0
    for i in range(D):
        for j in range(D):
            tot = env.conj(u[i]) * M(i, j) * v[j] + tot
    return tot


CONCRETE_PD = [
    [[2, 0.5 - 0.25j], [0.5 + 0.25j, 1]],
    [[1, -0.5j], [0.5j, 3]],
    [[1.5, 0.25], [0.25, 0.75]],
]
CONCRETE_PD3 = [
    [[2, 0.5 - 0.25j, 0.25j], [0.5 + 0.25j, 1.5, -0.25], [-0.25j, -0.25, 1]],
]


def concrete_pd(env, F, D):
    """fixed complex Hermitian positive definite rational matrices (non-diagonal), one per bin"""
    src = CONCRETE_PD if D == 2 else CONCRETE_PD3
    P = np.array([src[f % len(src)] for f in range(F)], dtype=np.complex128)
    if env.sym:
        from symnp.array import lift
        return lift(P)
    return P


def noise_psd(env, kind, F, D):
    if kind == 'sym':
        return pd_matrix(env, 'L', (F,), D)[0]
    return concrete_pd(env, F, D)
