"""C04  Spatial models depend only on the direction of each observation vector."""
import itertools
import numpy as np
from symnp.runner import Case
from harness import mm_common as mm

OUTSIDE = ('cACG / cACGMM log_pdf, posterior and log-likelihood invariance and the vMF mixture streams (vMFMM, embedding stream of vMF-cACGMM) are not decided: the solver stays inconclusive on the square-root / exp terms, they follow from the decided invariance of the normalised outer products only by inspection; zero frames (excluded by the property); N > 2, D > 2, K > 2; iterations > 1 at API level (one EM step from arbitrary '
           'state composes); complex Bingham trainer (numeric root finder): only its normaliser / scatter; rounding at |c| ~ 1e+-100 '
           '(reals): gains are symbolic over [1e-100, 1e100] but arithmetic is exact')


def _gains(env, N, positive=False):
    s = env.real('cs', (N,), lo=1e-100, hi=1e100)
    if positive:
        return s
    a = env.real('ca', (N,), lo=-1, hi=1)
    b = env.real('cb', (N,), lo=-1, hi=1)
    for n in range(N):
        env.assume(env.el(a, (n,)) * env.el(a, (n,)) + env.el(b, (n,)) * env.el(b, (n,)) >= 0.25, 'gain = s (a + jb), s in [1e-100, 1e100], 0.25 <= a^2 + b^2')
    return s * (a + 1j * b)


def _frames(env, N, D, cplx=True):
    y = env.cplx('y', (N, D), lo=-2, hi=2) if cplx else env.real('y', (N, D), lo=-2, hi=2)
    mm.nonzero_frames(env, y, (), N)
    return y


def _inject_norms(env, y, c, N, D, cplx=True):
    """oracle first: the norms the code will compute (same summation order), with the lemmas that make its `tiny`
    guards resolve:  |y_n| >= 0.2,  |c_n y_n| >= 1e-102  (both follow from the preconditions)"""
    yc = y * c[:, None]
    for arr, lo, tag in ((y, 0.2, 'y'), (yc, 1e-102, 'cy')):
        for n in range(N):
            S = None
            for d in range(D):
                e = env.el(arr, (n, d))
                t = env.abs2(e) if cplx else e * e
                S = t if S is None else S + t
            sq = env.sqrt(S)
            env.prove_and_use('norm_%s_bounded_away_from_zero[%d]' % (tag, n), sq >= lo)
    return yc


def h_normaliser(env, which='cacg', N=1, D=2):
    """outer products z z^H of the normalised frames do not depend on the gain"""
    from pb_bss.distribution import complex_angular_central_gaussian as cacg, complex_watson as cw, complex_bingham as cb
    y = _frames(env, N, D)
    c = _gains(env, N)
    f = {'cacg': lambda v: np.swapaxes(cacg.normalize_observation(v), -1, -2), 'watson': cw.normalize_observation,
         'bingham': cb.normalize_observation}[which]
    yc = _inject_norms(env, y, c, N, D)
    z = f(y)
    z2 = f(yc)
    for n in range(N):
        for d in range(D):
            for e in range(D):
                env.eq('outer_product_invariant[%d,%d,%d]' % (n, d, e), env.el(z2, (n, d)) * env.conj(env.el(z2, (n, e))),
                       env.el(z, (n, d)) * env.conj(env.el(z, (n, e))), rtol=1e-6)


def h_vmf_normaliser(env, N=1, D=2):
    from pb_bss.distribution import VonMisesFisher
    y = _frames(env, N, D, cplx=False)
    c = _gains(env, N, positive=True)
    mu = env.real('mu', (D,), lo=-1, hi=1)
    k = env.real('k', (), lo=0.1, hi=50)
    m = VonMisesFisher(mean=mu, concentration=k)
    env.eq('vmf_log_pdf_invariant', m.log_pdf(y * c[:, None]), m.log_pdf(y), rtol=1e-6)


def h_log_pdf(env, model='cacg', N=1, D=2):
    from pb_bss import distribution as d
    y = _frames(env, N, D)
    c = _gains(env, N)
    _inject_norms(env, y, c, N, D)
    if model == 'cacg':
        V = env.cplx('V', (D, D), lo=-1, hi=1)
        w = env.real('w', (D,), lo=1e-3, hi=1)
        m = d.ComplexAngularCentralGaussian(covariance_eigenvectors=V, covariance_eigenvalues=w)
        env.eq('log_pdf_invariant', m.log_pdf(y * c[:, None]), m.log_pdf(y), rtol=1e-6)
    elif model == 'cwmm':
        mode = env.cplx('m', (2, D), lo=-1, hi=1)
        kap = env.real('k', (2,), lo=0.1, hi=50)
        wgt = env.real('pi', (2, 1), lo=0.1, hi=1)
        m = d.CWMM(weight=wgt, complex_watson=d.ComplexWatson(mode=mode, concentration=kap))
        env.eq('posterior_invariant', m.predict(y * c[:, None]), m.predict(y), rtol=1e-6)
    elif model == 'cacgmm':
        V = env.cplx('V', (2, D, D), lo=-1, hi=1)
        w = env.real('w', (2, D), lo=1e-3, hi=1)
        wgt = env.real('pi', (2, 1), lo=0.1, hi=1)
        m = d.CACGMM(weight=wgt, cacg=d.ComplexAngularCentralGaussian(covariance_eigenvectors=V, covariance_eigenvalues=w))
        env.eq('posterior_invariant', m.predict(y * c[:, None]), m.predict(y), rtol=1e-6)
        env.eq('log_likelihood_invariant', m.log_likelihood(y * c[:, None]), m.log_likelihood(y), rtol=1e-6)


def h_fit(env, model='cacgmm', K=2, N=2, D=2):
    """one EM iteration: the matrices handed to eigh (hence all fitted parameters) do not depend on the gains"""
    from symnp import stubs
    cplx = model not in ('vmfmm',)
    if model == 'vmfcacgmm':
        y = env.cplx('y', (1, N, D), lo=-2, hi=2)
        emb = env.real('e', (1, N, 2), lo=-2, hi=2)
        for n in range(N):
            s = 0.0
            for d in range(2):
                s = env.el(emb, (0, n, d)) * env.el(emb, (0, n, d)) + s
            env.assume(s >= 0.05, 'embedding frames have squared norm >= 0.05')
        cpos = env.real('cp', (N,), lo=1e-100, hi=1e100)
        # oracle first: |c e| = c |e| for c > 0 (lemma injection), norms bounded away from zero
        for n in range(N):
            S = None; S2 = None
            for d in range(2):
                e0 = env.el(emb, (0, n, d))
                t = e0 * e0
                t2 = (e0 * env.el(cpos, (n,))) * (e0 * env.el(cpos, (n,)))
                S = t if S is None else S + t
                S2 = t2 if S2 is None else S2 + t2
            sn, sn2 = env.sqrt(S), env.sqrt(S2)
            env.prove_and_use('embedding_norm_ge_0.2[%d]' % n, sn >= 0.2)
            env.prove_and_use('norm_of_scaled_embedding_is_scaled_norm[%d]' % n, sn2 == env.el(cpos, (n,)) * sn)
            env.prove_and_use('scaled_embedding_norm_ge_1e-101[%d]' % n, sn2 >= 1e-101)
        init = env.real('g', (1, K, N), lo=0.05, hi=1)
        m1 = mm.fit(model, y, init, iterations=1, emb=emb)
        m2 = mm.fit(model, y, init, iterations=1, emb=emb * cpos[None, :, None])
        env.eq('vmf_mean_invariant_to_embedding_scale', m2.vmf.mean, m1.vmf.mean, rtol=1e-6)
        env.eq('vmf_concentration_invariant_to_embedding_scale', m2.vmf.concentration, m1.vmf.concentration, rtol=1e-5)
        return
    y = _frames(env, N, D, cplx=cplx)
    c = _gains(env, N, positive=not cplx)
    _inject_norms(env, y, c, N, D, cplx=cplx)
    init = env.real('g', (K, N), lo=0.05, hi=1)
    if env.sym:
        stubs.EIGH_INPUTS.clear()
    m1 = mm.fit(model, y, init, iterations=1)
    n1 = len(stubs.EIGH_INPUTS) if env.sym else 0
    m2 = mm.fit(model, y * c[:, None], init, iterations=1)
    if env.sym and model != 'vmfmm':
        A1, A2 = stubs.EIGH_INPUTS[:n1], stubs.EIGH_INPUTS[n1:]
        env._record_plain('same_number_of_eigh_calls', len(A1) == len(A2) and len(A1) > 0)
        for i, (a, b) in enumerate(zip(A1, A2)):
            for idx in np.ndindex(a.shape):
                env.eq('matrix_given_to_eigh_invariant[%d]%s' % (i, list(idx)), b[idx], a[idx])
    else:
        p1, p2 = mm.params(m1), mm.params(m2)
        for k, v in p1.items():
            if not hasattr(v, 'shape'):
                continue
            if 'eigenvectors' in k or k.endswith('mode'):
                continue         # defined up to a phase: compared through the posteriors below
            env.eq('param_%s_invariant' % k, p2[k], v, rtol=1e-5)
    env.eq('weight_invariant', m2.weight, m1.weight, rtol=1e-6)
    if not env.sym:
        env.eq('posterior_invariant', mm.predict(model, m2, y), mm.predict(model, m1, y), rtol=1e-5, atol=1e-7)


def cases(tier):
    cs = []
    for which in ['cacg', 'watson', 'bingham']:
        cs.append(Case('normaliser/%s' % which, h_normaliser, dict(which=which, N=1, D=2), bounds='D=2, symbolic frame and gain', timeout_ms=120000))
    cs.append(Case('normaliser/vmf_log_pdf', h_vmf_normaliser, dict(N=1, D=2), bounds='D=2 positive gain', timeout_ms=60000))
    cs.append(Case('log_pdf/cwmm', h_log_pdf, dict(model='cwmm', N=1, D=2), bounds='CWMM.predict: D=2 N=1 K=2 arbitrary model parameters', timeout_ms=120000))
    import os
    if os.environ.get('VERIF_TRY_EXTRAS') == '1':
        cs.append(Case('fit/vmfcacgmm', h_fit, dict(model='vmfcacgmm', K=2, N=2, D=2), bounds='F=1 K=2 N=2 D=2 E=2 one EM iteration, positive gains on the embeddings', timeout_ms=120000, lazy=True, cosim=2, budget_s=900))
        for model in ['cacg', 'cacgmm']:
            cs.append(Case('log_pdf/%s' % model, h_log_pdf, dict(model=model, N=1, D=2), bounds='D=2 N=1 arbitrary model parameters', timeout_ms=120000))
    if tier != 'quick':
        cs.append(Case('fit/cacgmm', h_fit, dict(model='cacgmm', K=2, N=2, D=2), bounds='K=2 N=2 D=2 one EM iteration', timeout_ms=300000, lazy=True, cosim=2, budget_s=3000))
        cs.append(Case('fit/cwmm', h_fit, dict(model='cwmm', K=2, N=2, D=2), bounds='K=2 N=2 D=2 one EM iteration', timeout_ms=300000, lazy=True, cosim=2, budget_s=3000))
    return cs
