"""C18  Oracle masks satisfy their defining identities in every axis layout."""
import itertools
import numpy as np
from symnp.runner import Case

OUTSIDE = ('Lorenz mask beyond 4 points; phase-sensitive mask (co-simulated only); tensors with more than 3 axes or sizes > 3; Lorenz mask on more than 8 points; rounding; the eps guards are treated '
           'exactly (sum of masks * (power + eps) == power)')


def _layout(ndim, source_axis, sensor_axis):
    return [a for a in range(ndim) if a not in (source_axis % ndim,) + (() if sensor_axis is None else (sensor_axis % ndim,))]


def h_power_masks(env, shape=(2, 2, 2), source_axis=0, sensor_axis=None, keepdims=False):
    """ideal binary mask, Wiener-like mask (pooled over sensors)"""
    from pb_bss.extraction import mask_module as mmod
    x = env.cplx('x', shape, lo=-2, hi=2)
    x0 = x.copy()
    env.readonly(x)
    nd = len(shape)
    sa = source_axis % nd
    se = None if sensor_axis is None else sensor_axis % nd
    K = shape[sa]
    ibm = mmod.ideal_binary_mask(x, source_axis=source_axis, sensor_axis=sensor_axis, keepdims=keepdims)
    wlm = mmod.wiener_like_mask(x, source_axis=source_axis, sensor_axis=sensor_axis, keepdims=keepdims)
    env.eq('input_untouched', x, x0)
    out_shape = list(shape)
    if se is not None:
        if keepdims:
            out_shape[se] = 1
        else:
            out_shape.pop(se)
    env.shape_is('ibm', ibm, tuple(out_shape))
    env.shape_is('wiener', wlm, tuple(out_shape))
    if tuple(ibm.shape) != tuple(out_shape) or tuple(wlm.shape) != tuple(out_shape):
        return
    rest = [a for a in range(nd) if a != sa and a != se]
    for idx in np.ndindex(*[shape[a] for a in rest]):
        def full(k, d=None):
            i = [None] * nd
            for a, v in zip(rest, idx):
                i[a] = v
            i[sa] = k
            if se is not None:
                i[se] = d
            return tuple(i)

        def outidx(k):
            i = [None] * nd
            for a, v in zip(rest, idx):
                i[a] = v
            i[sa] = k
            if se is not None:
                i[se] = 0
            if se is not None and not keepdims:
                i.pop(se)
            return tuple(i)
        P = []
        for k in range(K):
            p = None
            for d in (range(shape[se]) if se is not None else [None]):
                t = env.abs2(env.el(x, full(k, d)))
                p = t if p is None else p + t
            P.append(p)
        tot = None
        for p in P:
            tot = p if tot is None else tot + p
        # Wiener-like: mask_k * (total + eps) == power_k, in [0, 1]
        for k in range(K):
            m = env.el(wlm, outidx(k))
            env.eq('wiener_definition%s[%d]' % (list(idx), k), m * (tot + mmod.EPS), P[k])
            env.le('wiener_ge_0%s[%d]' % (list(idx), k), 0.0, m)
            env.le('wiener_le_1%s[%d]' % (list(idx), k), m, 1.0)
        # ideal binary mask: one-hot at the first maximiser of the pooled power
        best = 0
        for k in range(1, K):
            if bool(P[k] > P[best]):
                best = k
        for k in range(K):
            env.eq('ibm_one_hot_at_max_power%s[%d]' % (list(idx), k), env.el(ibm, outidx(k)), 1.0 if k == best else 0.0)


def h_complex_masks(env, shape=(2, 2), source_axis=0):
    from pb_bss.extraction import mask_module as mmod
    x = env.cplx('x', shape, lo=-2, hi=2)
    env.readonly(x)
    nd = len(shape)
    sa = source_axis % nd
    K = shape[sa]
    rest = [a for a in range(nd) if a != sa]
    mix = {}
    for idx in np.ndindex(*[shape[a] for a in rest]):
        def full(k):
            i = [None] * nd
            for a, v in zip(rest, idx):
                i[a] = v
            i[sa] = k
            return tuple(i)
        s = None
        for k in range(K):
            s = env.el(x, full(k)) if s is None else s + env.el(x, full(k))
        env.assume(env.abs2(s) >= 0.01, 'mixture magnitude^2 >= 0.01 at every point')
        mix[idx] = (s, full)
    irm = mmod.ideal_ratio_mask(x, source_axis=source_axis)
    icm = mmod.ideal_complex_mask(x, source_axis=source_axis)
    env.shape_is('irm', irm, shape)
    env.shape_is('icm', icm, shape)
    for idx, (s, full) in mix.items():
        asum = None
        for k in range(K):
            a = abs(env.el(x, full(k)))
            asum = a if asum is None else asum + a
        for k in range(K):
            env.eq('icm_times_mixture_is_source%s[%d]' % (list(idx), k), env.el(icm, full(k)) * s, env.el(x, full(k)))
            env.eq('irm_definition%s[%d]' % (list(idx), k), env.el(irm, full(k)) * (asum + mmod.EPS), abs(env.el(x, full(k))))
            env.le('irm_ge_0%s[%d]' % (list(idx), k), 0.0, env.el(irm, full(k)))
            env.le('irm_le_1%s[%d]' % (list(idx), k), env.el(irm, full(k)), 1.0)
    if not env.sym:
        psm = mmod.phase_sensitive_mask(x, source_axis=source_axis)
        for idx, (s, full) in mix.items():
            for k in range(K):
                env.eq('psm_is_real_part_of_icm%s[%d]' % (list(idx), k), np.asarray(psm)[full(k)] * (abs(s) + mmod.EPS), (np.asarray(icm)[full(k)]).real * abs(s), rtol=1e-6)


def h_zero(env):
    from pb_bss.extraction import mask_module as mmod
    z = np.zeros((2, 2, 2), dtype=np.complex128)
    if env.sym:
        from symnp.array import lift
        z = lift(z)
    for name, fn in (('wiener', lambda v: mmod.wiener_like_mask(v)), ('wiener_sensor', lambda v: mmod.wiener_like_mask(v, sensor_axis=1)),
                     ('irm', lambda v: mmod.ideal_ratio_mask(v)), ('ibm', lambda v: mmod.ideal_binary_mask(v))):
        out = fn(z)
        env.isfinite('finite_on_zero_input_' + name, out)
        if name != 'ibm':
            env.eq('zero_on_zero_input_' + name, out, np.zeros(out.shape))


def h_quantile(env, n=6, q=0.25, lead=(), axis=-1, weight=0.999):
    from pb_bss.extraction import mask_module as mmod
    x = env.real('x', tuple(lead) + (n,), lo=0, hi=3)
    env.readonly(x)
    m = mmod.quantile_mask(x, quantile=q, axis=axis, weight=weight)
    env.shape_is('mask', m, tuple(lead) + (n,))
    hi, lo = 0.5 + weight / 2, 0.5 - weight / 2
    for li in (np.ndindex(*lead) if lead else [()]):
        vals = [env.el(x, li + (i,)) for i in range(n)]
        # counting definition of the linear-interpolation percentile (NumPy 'linear'): p = q' (n-1), threshold between order stats
        qq = (1 - q) if q >= 0 else abs(q)
        pos = qq * (n - 1)
        lo_i = int(np.floor(pos + 1e-12)); g = pos - lo_i
        hi_i = min(lo_i + 1, n - 1)
        for i in range(n):
            lev = env.el(m, li + (i,))
            if env.sym:
                near = lambda v, t: (v - t <= 1e-12) & (t - v <= 1e-12)
                env.true('level_is_high_or_low%s[%d]' % (list(li), i), near(lev, hi) | near(lev, lo))
            else:
                env.true('level_is_high_or_low%s[%d]' % (list(li), i), abs(lev - hi) < 1e-12 or abs(lev - lo) < 1e-12)
        if not env.sym:
            thr = np.percentile(np.array(vals, dtype=float), qq * 100)
            for i in range(n):
                want = hi if ((vals[i] > thr) if q >= 0 else (vals[i] < thr)) else lo
                env.eq('quantile_level%s[%d]' % (list(li), i), env.el(m, li + (i,)), want)
        else:
            # order statistics through the counting characterisation:  a value v is the j-th smallest (0-based) order
            # statistic iff  #{x < v} <= j  and  #{x <= v} >= j + 1
            from symnp.core import SR, ite
            for i in range(n):
                for a in range(n):
                    for b in range(n):
                        va, vb = vals[a], vals[b]
                        cnt_lt_a = sum_([ite(v < va, SR(1), SR(0)) for v in vals]); cnt_le_a = sum_([ite(v <= va, SR(1), SR(0)) for v in vals])
                        cnt_lt_b = sum_([ite(v < vb, SR(1), SR(0)) for v in vals]); cnt_le_b = sum_([ite(v <= vb, SR(1), SR(0)) for v in vals])
                        is_a = (cnt_lt_a <= lo_i) & (cnt_le_a >= lo_i + 1)
                        is_b = (cnt_lt_b <= hi_i) & (cnt_le_b >= hi_i + 1)
                        thr = va + (vb - va) * SR(float(g))
                        above = (vals[i] > thr) if q >= 0 else (vals[i] < thr)
                        lev = env.el(m, li + (i,))
                        env.true('quantile_level%s[%d|%d,%d]' % (list(li), i, a, b), (~(is_a & is_b)) | ((lev >= 0.75) == above))


def h_lorenz(env, n=4, frac=0.6, weight=0.999, lead=(1,)):
    """Lorenz mask: high level exactly at the points strictly stronger than the weakest of the strongest points whose
    cumulative share of the power stays below the Lorenz fraction (order-free characterisation, ties included)"""
    from pb_bss.extraction import mask_module as mmod
    x = env.real('x', tuple(lead) + (1, n), lo=0, hi=3)
    env.readonly(x)
    hi, lo = 0.5 + weight / 2, 0.5 - weight / 2
    rows = []
    for li in np.ndindex(*lead):
        p = [env.el(x, li + (0, i)) * env.el(x, li + (0, i)) for i in range(n)]
        tot = sum_(p)
        for i in range(n):
            env.assume(p[i] < frac * tot, 'no single point carries the Lorenz fraction of the total power')
        rows.append((li, p, tot))
    m = mmod.lorenz_mask(x, lorenz_fraction=frac, weight=weight)
    env.shape_is('mask', m, tuple(lead) + (1, n))
    for li, p, tot in rows:
        if env.sym:
            from symnp.core import ite, SR
            # threshold t = min{ v in values : (sum of powers strictly greater than v) + v < frac * total }
            t = p[0]
            for v in p[1:]:
                t = ite(v >= t, v, t)
            for j in range(n):
                Sj = p[j]
                for k in range(n):
                    Sj = Sj + ite(p[k] > p[j], p[k], SR(0))
                cond = (Sj < frac * tot) & (p[j] < t)
                t = ite(cond, p[j], t)
            for i in range(n):
                lev = env.el(m, li + (0, i))
                env.true('lorenz_level%s[%d]' % (list(li), i), (lev >= 0.75) == (p[i] > t))
        else:
            pv = np.array([float(v) for v in p])
            cands = [v for v in pv if pv[pv > v].sum() + v < frac * pv.sum()]
            t = min(cands)
            for i in range(n):
                lev = float(np.asarray(m)[li + (0, i)])
                env.eq('lorenz_level%s[%d]' % (list(li), i), lev, hi if pv[i] > t else lo)


def sum_(xs):
    t = 0
    for x in xs:
        t = x + t
    return t


def cases(tier):
    cs = []
    for shape, sa, se, kd in [((2, 2), 0, None, False), ((2, 2), 1, None, False), ((2, 2, 2), 0, 1, False), ((2, 2, 2), 0, 1, True),
                              ((2, 2, 2), 1, 0, False), ((2, 2, 2), 0, -1, False), ((2, 2, 2), 1, -1, False), ((2, 2, 2), -1, 0, False),
                              ((3, 2), 0, None, False), ((2, 1, 2), 2, 1, False)]:
        cs.append(Case('power/%s_src%d_sens%s_kd%d' % ('x'.join(map(str, shape)), sa, se, kd), h_power_masks,
                       dict(shape=shape, source_axis=sa, sensor_axis=se, keepdims=kd), bounds='shape %s source_axis %d sensor_axis %s keepdims %s' % (shape, sa, se, kd),
                       lazy=True, timeout_ms=60000, cosim=1))
    for shape, sa in [((2, 2), 0), ((2, 2), 1), ((2, 1, 2), 2), ((3, 1), 0)]:
        cs.append(Case('complex/%s_src%d' % ('x'.join(map(str, shape)), sa), h_complex_masks, dict(shape=shape, source_axis=sa),
                       bounds='shape %s source_axis %d' % (shape, sa), timeout_ms=60000, cosim=1))
    cs.append(Case('zero_input', h_zero, dict(), bounds='all-zero (2,2,2) input'))
    for q in [0.25, -0.25]:
        cs.append(Case('quantile/n4_q%g' % q, h_quantile, dict(n=4, q=q, lead=(1,)), bounds='n=4 points, 1 independent row, q=%g' % q, lazy=True, timeout_ms=60000, cosim=2, max_paths=5000))
    cs.append(Case('quantile/no_independent_axis', h_quantile, dict(n=4, q=0.25, lead=()), bounds='1-D input (no independent axis)', lazy=True, timeout_ms=60000, cosim=2, max_paths=5000))
    cs.append(Case('lorenz/n4', h_lorenz, dict(n=4, frac=0.6), bounds='n=4 points in one (F=1, T=4) block, lorenz_fraction 0.6, ties included', lazy=True, timeout_ms=60000, cosim=3, max_paths=20000, budget_s=600))
    return cs
