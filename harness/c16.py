"""C16  Blind alignment restores a frequency-consistent class order (plan coverage, net reordering)."""
import itertools
import os
import re
import subprocess
import sys
import numpy as np
from symnp.runner import Case

OUTSIDE = ('the restoration clauses (consistent order for every permutation field, 70 % majority / two-thirds overlap condition of '
           'DHTV) need F >= 9 bins and T >= 8 frames of symbolic mask: path explosion, not decided; plan coverage by CrossHair for '
           'STFT sizes up to 20 (quick) / 32 (thorough; 34..64 not run in round 1), the shipped 512 / 1024 defaults concretely; net reordering with the '
           'per-bin assignment replaced by an arbitrary-permutation stub (K=3, F=3)')

PERMS3 = [(0, 1, 2), (1, 0, 2), (0, 2, 1), (1, 2, 0)]


def h_net_dhtv(env, K=3, F=3, T=1, iters=(2, 1), plan=None):
    """calculate_mapping with _align_segment replaced by an arbitrary-permutation environment stub: the returned mapping is
    the accumulated composition prescribed by the procedure and applying it reproduces the final features"""
    from pb_bss import permutation_alignment as pa
    mask = env.real('m', (K, F, T), lo=0, hi=3)
    mask0 = mask.copy()
    al = pa.DHTVPermutationAlignment(stft_size=2 * (F - 1), similarity_metric='multiply', algorithm='greedy',
                                     main_iterations=iters[0], sub_iterations=iters[1], **(plan or dict(segment_start=0, segment_width=F, segment_shift=1)))
    calls = []
    cur = [list(range(K)) for _ in range(F)]
    feat = [[(k, f) for k in range(K)] for f in range(F)]        # which original row sits where
    state = {'n': 0}

    def stub(self_mask, prototype):
        i = state['n']
        state['n'] += 1
        p = PERMS3[env.choice('perm%d' % i, len(PERMS3))] if K == 3 else [(0, 1), (1, 0)][env.choice('perm%d' % i, 2)]
        calls.append(p)
        return np.array(p)
    al._align_segment = stub
    # the procedure visits bins in plan order; replicate the bookkeeping from the recorded permutations
    mapping = np.asarray(al.calculate_mapping(mask))
    env.eq('mask_untouched', mask, mask0)
    it = iter(calls)
    exp = [list(range(K)) for _ in range(F)]
    try:
        for iterations, start, end in al.alignment_plan:
            for _ in range(iterations):
                changed = False
                for f in range(start, end):
                    rp = next(it)
                    if list(rp) != list(range(K)):
                        changed = True
                        exp[f] = [exp[f][rp[k]] for k in range(K)]
                if not changed:
                    break
        leftover = sum(1 for _ in it)
    except StopIteration:
        leftover = -1
    env._record_plain('number_of_per_bin_assignments_follows_the_plan', leftover == 0, detail=str(leftover))
    want = np.array(exp, dtype=np.int64).T
    env._record_plain('mapping_is_accumulated_net_reordering', mapping.shape == want.shape and bool((mapping == want).all()), detail='%s vs %s' % (mapping.tolist(), want.tolist()))
    aligned = pa.apply_mapping(mask0, mapping)
    for k in range(K):
        for f in range(F):
            env.eq('applying_mapping_reproduces_final_features[%d,%d]' % (k, f), aligned[k, f], mask0[want[k, f], f])


def h_net_greedy(env, K=3, F=3, T=1):
    """greedy aligner: chain of adjacent-bin assignments (the per-bin assignments are an arbitrary-permutation stub)"""
    from pb_bss import permutation_alignment as pa
    mask = env.real('m', (K, F, T), lo=0, hi=3)
    raw = np.zeros((K, F - 1), dtype=np.int64)
    for f in range(F - 1):
        p = PERMS3[env.choice('perm%d' % f, len(PERMS3))] if K == 3 else [(0, 1), (1, 0)][env.choice('perm%d' % f, 2)]
        raw[:, f] = p
    orig = pa._mapping_from_score_matrix
    pa._mapping_from_score_matrix = lambda scores, algorithm='optimal': raw.copy()
    try:
        mapping = np.asarray(pa.GreedyPermutationAlignment(similarity_metric='multiply').calculate_mapping(mask))
    finally:
        pa._mapping_from_score_matrix = orig
    exp = [list(range(K))]
    for f in range(1, F):
        exp.append([int(raw[exp[f - 1][k], f - 1]) for k in range(K)])
    want = np.array(exp, dtype=np.int64).T
    env._record_plain('mapping_is_chain_of_adjacent_bin_assignments', mapping.shape == want.shape and bool((mapping == want).all()), detail='%s vs %s' % (mapping.tolist(), want.tolist()))


PLAN_SRC = '''
import sys
sys.path.insert(0, %(repo)r)
from pb_bss.permutation_alignment import DHTVPermutationAlignment

SIZE = %(size)d
F = SIZE // 2 + 1


def plan_covers(start: int, width: int, shift: int) -> bool:
    """
    pre: 0 <= start
    pre: 1 <= width
    pre: 1 <= shift <= width
    pre: start + width <= F
    post: _ == True
    """
    plan = DHTVPermutationAlignment(stft_size=SIZE, segment_start=start, segment_width=width, segment_shift=shift,
                                    main_iterations=1, sub_iterations=1).alignment_plan
    covered = [False] * F
    for it, s, e in plan:
        if not (0 <= s < e <= F):
            return False
        for f in range(s, e):
            covered[f] = True
    return all(covered)
'''


def _plan_ok(size, start, width, shift):
    from pb_bss.permutation_alignment import DHTVPermutationAlignment
    F = size // 2 + 1
    plan = DHTVPermutationAlignment(stft_size=size, segment_start=start, segment_width=width, segment_shift=shift,
                                    main_iterations=1, sub_iterations=1).alignment_plan
    cov = [False] * F
    for it, s, e in plan:
        if not (0 <= s < e <= F):
            return False
        for f in range(s, e):
            cov[f] = True
    return all(cov)


def h_plan(env, size=8, timeout=120):
    """plan coverage for one STFT size, all (start, width, shift) with shift <= width: CrossHair (symbolic execution of the
    real alignment_plan property with z3)"""
    import time
    from symnp.env import Obl
    F = size // 2 + 1
    if not env.sym:
        if 'plan' in env.values:
            st, w, sh = [int(v) for v in np.array(env.values['plan']).reshape(-1)]
            env._record_plain('plan_covers_every_bin', _plan_ok(size, st, w, sh), detail=str((size, st, w, sh)))
        else:
            for _ in range(50):
                w = int(env.rng.randint(1, F + 1)); st = int(env.rng.randint(0, F - w + 1)); sh = int(env.rng.randint(1, w + 1))
                env._record_plain('plan_covers_every_bin', _plan_ok(size, st, w, sh), detail=str((size, st, w, sh)))
        return
    verif = os.path.dirname(os.path.dirname(os.path.abspath(__file__)))
    d = os.path.join(verif, 'scratch', 'crosshair')
    os.makedirs(d, exist_ok=True)
    path = os.path.join(d, 'plan_%d.py' % size)
    open(path, 'w').write(PLAN_SRC % dict(repo=os.environ.get('PB_BSS_REPO', '/repo'), size=size))
    t0 = time.time()
    cmd = [os.path.join(verif, '.venv', 'bin', 'python'), '-m', 'crosshair', 'check', '--report_all', '--per_condition_timeout', str(timeout),
           '--per_path_timeout', '30', path]
    r = subprocess.run(cmd, capture_output=True, text=True, timeout=timeout + 120)
    out = r.stdout + r.stderr
    secs = time.time() - t0
    if 'Confirmed over all paths' in out:
        env.obls.append(Obl('plan_covers_every_bin[size=%d]' % size, 'unsat', secs, True, env.path_no, detail='crosshair: confirmed over all paths'))
    else:
        m = re.search(r'plan_covers\((\-?\d+), (\-?\d+), (\-?\d+)\)', out)
        if m:
            vals = [int(m.group(i)) for i in (1, 2, 3)]
            env.obls.append(Obl('plan_covers_every_bin[size=%d]' % size, 'sat', secs, True, env.path_no, detail=out[-300:]))
            env.candidates.append(dict(label='plan_covers_every_bin', values={'plan': vals}, kind='crosshair-counterexample', path=env.path_no))
        else:
            env.obls.append(Obl('plan_covers_every_bin[size=%d]' % size, 'unknown', secs, True, env.path_no, detail=out[-300:]))


def h_plan_defaults(env):
    from pb_bss.permutation_alignment import DHTVPermutationAlignment
    for size in (512, 1024):
        plan = DHTVPermutationAlignment.from_stft_size(size).alignment_plan
        F = size // 2 + 1
        cov = [False] * F
        for it, s, e in plan:
            for f in range(s, e):
                cov[f] = True
        env._record_plain('shipped_default_plan_covers_every_bin[%d]' % size, all(cov))


def cases(tier):
    q = tier == 'quick'
    cs = []
    for size in (range(2, 21, 2) if q else range(2, 33, 2)):
        cs.append(Case('plan/size%d' % size, h_plan, dict(size=size, timeout=120 if size <= 20 else 900), bounds='stft_size %d, all segment_start / width / shift with shift <= width' % size,
                       cosim=1, budget_s=1200))
    cs.append(Case('plan/defaults', h_plan_defaults, dict(), bounds='shipped defaults for 512 and 1024 (concrete)', cosim=1))
    cs.append(Case('net/dhtv_K3', h_net_dhtv, dict(K=3, F=3, T=1, iters=(2, 1)), bounds='K=3 F=3, single-segment plan, 2 iterations, per-bin assignment = arbitrary permutation out of 4',
                   lazy=True, max_paths=20000, cosim=3, budget_s=900))
    cs.append(Case('net/dhtv_K2_two_segments', h_net_dhtv, dict(K=2, F=5, T=1, iters=(1, 1), plan=dict(segment_start=1, segment_width=2, segment_shift=1)),
                   bounds='K=2 F=5, plan start 1 width 2 shift 1', lazy=True, max_paths=20000, cosim=3, budget_s=900))
    cs.append(Case('net/greedy_K3', h_net_greedy, dict(K=3, F=5, T=1), bounds='K=3 F=5, arbitrary adjacent-bin assignments out of 4 permutations', lazy=True, cosim=3))
    return cs
