"""C05  Mixture training is equivariant under relabelling of the classes."""
import itertools
import numpy as np
from symnp.runner import Case
from harness import mm_common as mm

OUTSIDE = ('K > 3; iterations > 2; inline aligners (their tie-breaking is by class index by design); cBMM (numeric root '
           'finder); N > 3, D > 2')


def _class_axes(model, nlead):
    """class axis of every model parameter"""
    if model in ('gcacgmm', 'vmfcacgmm'):
        return {'weight': 1, 'cacg.covariance_eigenvectors': 1, 'cacg.covariance_eigenvalues': 1, 'default': 0}
    return {'default': nlead}


def h_relabel(env, model='cacgmm', K=2, N=3, D=2, lead=(), iterations=2, wca=(-1,), mask=False, perms=None, saliency=False):
    if model in ('gcacgmm', 'vmfcacgmm'):
        lead = (1,) if not lead else lead
        y = env.cplx('y', tuple(lead) + (N, D), lo=-2, hi=2)
        emb = env.real('e', tuple(lead) + (N, 2), lo=-2, hi=2)
    else:
        y = mm.observations(env, model, lead, N, D)
        emb = None
    init = env.real('g', tuple(lead) + (K, N), lo=0.05, hi=1.0)
    kw = {}
    if wca is not None:
        kw['weight_constant_axis'] = wca
    if saliency:
        kw['saliency'] = env.real('sal', tuple(lead) + (N,), lo=0.1, hi=2.0)
    m_act = env.boolean('act', tuple(lead) + (K, N), fork=True) if mask else None
    env.readonly(y); env.readonly(init)
    ax = _class_axes(model, len(lead))
    model_a = mm.fit(model, y, init, iterations=iterations, emb=emb, **(dict(kw, source_activity_mask=m_act) if mask else kw))
    post_a = mm.predict(model, model_a, y, emb)
    pa = mm.params(model_a)
    for perm in (perms or list(itertools.permutations(range(K)))[1:]):
        perm = list(perm)
        init_p = init[..., perm, :]
        kwp = dict(kw)
        if mask:
            kwp['source_activity_mask'] = m_act[..., perm, :]
        model_b = mm.fit(model, y, init_p, iterations=iterations, emb=emb, **kwp)
        pb = mm.params(model_b)
        for name, va in pa.items():
            vb = pb[name]
            if not hasattr(va, 'shape') or isinstance(va, (float, int, tuple)):
                continue
            if name.endswith('weight') and tuple(va.shape) == (K, 1) and len(lead) > 0:
                axis = 0
            else:
                axis = ax.get(name, ax['default'])
            if np.ndim(va) <= axis or va.shape[axis] != K:
                env.eq('param_%s_perm%s' % (name, perm), vb, va)
                continue
            env.eq('param_%s_perm%s' % (name, perm), vb, mm.take_class(va, axis, perm))
        post_b = mm.predict(model, model_b, y, emb)
        env.eq('posterior_perm%s' % perm, post_b, post_a[..., perm, :])


def cases(tier):
    q = tier == 'quick'
    cs = []
    for model in mm.MODELS:
        K = 2
        cs.append(Case('relabel/%s_K2' % model, h_relabel, dict(model=model, K=K, N=3, D=2, iterations=2),
                       bounds='K=2 N=3 D=2 (E=2) iterations=2', lazy=True, timeout_ms=60000, allow=('ValueError',), cosim=1))
    cs.append(Case('relabel/cacgmm_K3', h_relabel, dict(model='cacgmm', K=3, N=3, D=2, iterations=1, perms=[(1, 2, 0), (0, 2, 1)]),
                   bounds='K=3 N=3 D=2 iterations=1, a 3-cycle and a transposition', lazy=True, timeout_ms=60000, cosim=1))
    cs.append(Case('relabel/gcacgmm_K3', h_relabel, dict(model='gcacgmm', K=3, N=3, D=2, iterations=2, perms=[(1, 2, 0)]),
                   bounds='K=3 N=3 D=2 iterations=2, 3-cycle', lazy=True, timeout_ms=60000, allow=('ValueError',), cosim=1))
    cs.append(Case('relabel/cacgmm_mask', h_relabel, dict(model='cacgmm', K=2, N=2, D=2, iterations=2, mask=True),
                   bounds='K=2 N=2 D=2 iterations=2 with source_activity_mask (all 16 masks)', lazy=True, timeout_ms=60000, cosim=1))
    for model, wca in [('cacgmm', (-3,)), ('cwmm', (-3, -1)), ('gmm_spherical', -2), ('vmfmm', (-3,))]:
        cs.append(Case('relabel/%s_wca%s' % (model, str(wca).replace(' ', '')), h_relabel,
                       dict(model=model, K=2, N=2, D=2, lead=(2,), iterations=2, wca=wca),
                       bounds='K=2 N=2 D=2 F=2 iterations=2 weight_constant_axis=%s' % (wca,), lazy=True, timeout_ms=60000, allow=('ValueError',), cosim=1))
    cs.append(Case('relabel/cacgmm_saliency', h_relabel, dict(model='cacgmm', K=2, N=3, D=2, iterations=2, saliency=True),
                   bounds='K=2 N=3 D=2 iterations=2 with saliency', lazy=True, timeout_ms=60000, cosim=1))
    return cs
