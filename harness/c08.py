"""C08  Trainers return the documented weighted estimators and EM alternates them."""
import itertools
import math
import numpy as np
from symnp.runner import Case
from harness import mm_common as mm

ALIASES = {'concentration_is_inverse_ratio_of_top_eigenvalue': ('concentration_range', 'concentration_is_inverse_ratio_of_top_eigenvalue')}

OUTSIDE = ('convergence of the Tyler iteration to its fixed point (a limit); that kappa / the Bingham eigenvalues solve their '
           'transcendental equations (only: the right quantity goes through the right interpolation grid / numeric solver and the '
           'result is stored unmodified / clipped); complex Bingham; iteration counts > 2 for the repetition law; N > 3, D > 2')


def _wsum(env, sal, li, N):
    s = 0.0
    for n in range(N):
        s = env.el(sal, li + (n,)) + s
    return s


def h_gaussian(env, ctype='full', lead=(2,), N=3, D=2, saliency=True, domain=False):
    from pb_bss.distribution import GaussianTrainer
    y = env.real('y', tuple(lead) + (N, D), lo=-2, hi=2)
    sal = env.real('s', tuple(lead) + (N,), lo=0.1, hi=2) if saliency else None
    env.readonly(y)
    m = GaussianTrainer().fit(y, saliency=sal, covariance_type=ctype)
    for li in np.ndindex(*lead):
        w = [env.el(sal, li + (n,)) if saliency else 1.0 for n in range(N)]
        tot = 0.0
        for x in w:
            tot = tot + x
        mu = []
        for d in range(D):
            a = 0.0
            for n in range(N):
                a = w[n] * env.el(y, li + (n, d)) + a
            mu.append(a / tot)
            if not domain:
                env.eq('weighted_mean%s[%d]' % (list(li), d), env.el(m.mean, li + (d,)), mu[d])
        sc = [[None] * D for _ in range(D)]
        for d in range(D):
            for e in range(D):
                a = 0.0
                for n in range(N):
                    a = w[n] * (env.el(y, li + (n, d)) - mu[d]) * (env.el(y, li + (n, e)) - mu[e]) + a
                sc[d][e] = a / tot
        if ctype == 'full':
            for d in range(D):
                for e in range(D):
                    if domain:
                        env.eq('covariance_symmetric%s[%d,%d]' % (list(li), d, e), env.el(m.covariance, li + (d, e)), env.el(m.covariance, li + (e, d)))
                    else:
                        env.eq('weighted_scatter%s[%d,%d]' % (list(li), d, e), env.el(m.covariance, li + (d, e)), sc[d][e])
        elif ctype == 'diagonal':
            for d in range(D):
                if domain:
                    env.le('variance_nonnegative%s[%d]' % (list(li), d), 0.0, env.el(m.covariance, li + (d,)))
                else:
                    env.eq('weighted_variance%s[%d]' % (list(li), d), env.el(m.covariance, li + (d,)), sc[d][d])
        else:
            tr = 0.0
            for d in range(D):
                tr = sc[d][d] + tr
            if domain:
                env.le('variance_nonnegative%s' % list(li), 0.0, env.el(m.covariance, li))
            else:
                env.eq('pooled_variance%s' % list(li), env.el(m.covariance, li), tr / D)


def h_complex_gaussian(env, lead=(2,), N=2, D=2):
    from pb_bss.distribution import ComplexCircularSymmetricGaussianTrainer
    y = env.cplx('y', tuple(lead) + (N, D), lo=-2, hi=2)
    sal = env.real('s', tuple(lead) + (N,), lo=0.1, hi=2)
    cov = ComplexCircularSymmetricGaussianTrainer()._fit(y, saliency=sal, covariance_type='full').covariance
    for li in np.ndindex(*lead):
        tot = _wsum(env, sal, li, N)
        for d in range(D):
            for e in range(D):
                a = 0.0
                for n in range(N):
                    a = env.el(sal, li + (n,)) * env.el(y, li + (n, d)) * env.conj(env.el(y, li + (n, e))) + a
                env.eq('weighted_outer_product_mean%s[%d,%d]' % (list(li), d, e), env.el(cov, li + (d, e)), a / tot)


def _expected_spline_name(D, max_c, markers=1000):
    import scipy.special
    from symnp.stubs import grid_name
    x = np.logspace(-3, np.log10(max_c), markers)
    yv = scipy.special.hyp1f1(2, D + 1, x) / (D * scipy.special.hyp1f1(1, D, x))
    return grid_name(yv, x, (0, max_c)), x, yv


def h_watson(env, lead=(2,), N=3, D=2, saliency=True, max_c=500, before=None, domain=False):
    """before: list of (D, max_concentration) trainers used earlier in the same process (history)"""
    from pb_bss.distribution import ComplexWatsonTrainer
    for (Db, mb) in (before or []):
        yb = env.cplx('yb%d_%d' % (Db, mb), (N, Db), lo=-2, hi=2)
        ComplexWatsonTrainer(max_concentration=mb).fit(yb)
    y = env.cplx('y', tuple(lead) + (N, D), lo=-0.5, hi=0.5)     # frames inside the unit ball: top eigenvalue in the spline's range
    sal = env.real('s', tuple(lead) + (N,), lo=0.1, hi=2) if saliency else None
    env.readonly(y)
    from symnp import stubs
    stubs.EIGH_INPUTS.clear()
    # unit level: the estimator on (already normalised) frames; the normalisation itself is C04
    m = ComplexWatsonTrainer(dimension=D, max_concentration=max_c)._fit(y, saliency=sal)
    name, xg, yg = _expected_spline_name(D, max_c)
    for i, li in enumerate(np.ndindex(*lead)):
        z = []
        for n in range(N):
            nrm2 = 0.0
            for d in range(D):
                nrm2 = env.abs2(env.el(y, li + (n, d))) + nrm2
            z.append([env.el(y, li + (n, d)) for d in range(D)])
        w = [env.el(sal, li + (n,)) if saliency else 1.0 for n in range(N)]
        tot = 0.0
        for x in w:
            tot = tot + x
        if domain:
            n2 = 0.0
            for d in range(D):
                n2 = env.abs2(env.el(m.mode, li + (d,))) + n2
            env.eq('mode_unit_norm%s' % list(li), n2, 1.0)     # eigenvector of the (unitary) eigh contract
            env.le('concentration_range%s_lo' % list(li), 0.0, env.el(m.concentration, li))
            env.le('concentration_range%s_hi' % list(li), env.el(m.concentration, li), float(max_c))
            continue
        if env.sym:
            A = stubs.EIGH_INPUTS[i] if len(stubs.EIGH_INPUTS) > i else None
            env._record_plain('eigh_called_per_slice%s' % list(li), A is not None and len(stubs.EIGH_INPUTS) == int(np.prod(lead)))
            if A is None:
                continue
            for d in range(D):
                for e in range(D):
                    a = 0.0
                    for n in range(N):
                        a = w[n] * z[n][d] * env.conj(z[n][e]) + a
                    env.eq('matrix_given_to_eigh_is_weighted_scatter%s[%d,%d]' % (list(li), d, e), A[d, e], a / tot)
            from symnp.core import CTX, uf_apply
            lam, V = None, None
            for (A2, (wv, Vv)) in CTX.stub_reg.get('eigh', {}).values():
                if A2 is A or all(x is yy for x, yy in zip(A2.reshape(-1), A.reshape(-1))):
                    lam, V = wv, Vv
            if lam is None:
                continue
            for d in range(D):
                env.eq('mode_is_principal_eigenvector%s[%d]' % (list(li), d), env.el(m.mode, li + (d,)), V[d, D - 1])
            env.eq('concentration_is_inverse_ratio_of_top_eigenvalue%s' % list(li), env.el(m.concentration, li), uf_apply(name, lam[D - 1]))
        else:
            S = np.zeros((D, D), dtype=complex)
            for n in range(N):
                zz = np.array(z[n])
                S += w[n] * np.outer(zz, zz.conj())
            S /= tot
            ev, EV = np.linalg.eigh(S)
            mode = np.asarray(m.mode)[li]
            env.eq('mode_is_principal_eigenvector%s' % list(li), abs(np.vdot(EV[:, -1], mode)), 1.0, rtol=1e-6)
            # inverse of the hypergeometric ratio on an independently built grid
            lamx = ev[-1]
            if lamx <= yg[0]:
                want = 0.0
            elif lamx >= yg[-1]:
                want = float(max_c)
            else:
                want = float(np.interp(lamx, yg, xg))
            got = float(np.asarray(m.concentration)[li])
            env.eq('concentration_is_inverse_ratio_of_top_eigenvalue%s' % list(li), got, want, rtol=2e-2, atol=1e-3)


def h_vmf(env, lead=(2,), N=3, D=2, kmin=1e-10, kmax=500, domain=False, tiny_saliency=False):
    from pb_bss.distribution import VonMisesFisherTrainer
    y = env.real('y', tuple(lead) + (N, D), lo=-1, hi=1)
    sal = env.real('s', tuple(lead) + (N,), lo=1e-22 if tiny_saliency else 0.1, hi=2)
    pre = {}
    for li in np.ndindex(*lead):
        r = [None] * D
        for n in range(N):
            for d in range(D):
                t = env.el(sal, li + (n,)) * env.el(y, li + (n, d))
                r[d] = t if r[d] is None else r[d] + t
        r2 = None
        for d in range(D):
            r2 = r[d] * r[d] if r2 is None else r2 + r[d] * r[d]
        if tiny_saliency:
            env.assume(r2 >= 1e-60, 'weighted resultant has squared length >= 1e-60 (non-zero)')
            rn = env.sqrt(r2)
            env.prove_and_use('resultant_length_ge_9e-31%s' % list(li), rn >= 9e-31)
        else:
            env.assume(r2 >= 1e-4, 'weighted resultant has squared length >= 1e-4')
            rn = env.sqrt(r2)
            env.prove_and_use('resultant_length_ge_9e-3%s' % list(li), rn >= 9e-3)
        pre[li] = (r, r2, rn)
    # unit level: the estimator on (already normalised) frames; the normalisation itself is C04
    m = VonMisesFisherTrainer()._fit(y, saliency=sal, min_concentration=kmin, max_concentration=kmax)
    for li in np.ndindex(*lead):
        r, r2, rn = pre[li]
        tot = _wsum(env, sal, li, N)
        if domain:
            n2 = 0.0
            for d in range(D):
                n2 = env.el(m.mean, li + (d,)) * env.el(m.mean, li + (d,)) + n2
            env.eq('mean_unit_norm%s' % list(li), n2, 1.0)
            env.le('concentration_ge_min%s' % list(li), kmin, env.el(m.concentration, li))
            env.le('concentration_le_max%s' % list(li), env.el(m.concentration, li), float(kmax))
            continue
        for d in range(D):
            env.eq('mean_is_normalised_resultant%s[%d]' % (list(li), d), env.el(m.mean, li + (d,)), r[d] / rn)
        rbar = rn / tot
        env.assume(rbar <= 0.999, 'mean resultant length <= 0.999 (1 - rbar^2 bounded away from 0)')
        banerjee = (rbar * D - rbar * rbar * rbar) / (1 - rbar * rbar)
        if env.sym:
            from symnp.core import ite
            want = ite(banerjee <= kmin, kmin, ite(banerjee >= kmax, kmax, banerjee))
        else:
            want = min(max(banerjee, kmin), kmax)
        env.eq('clipped_banerjee_concentration%s' % list(li), env.el(m.concentration, li), want)


def h_cacg_step(env, lead=(), K=2, N=3, D=2, hermitize=True, norm='eigenvalue', floor=1e-10, domain=False):
    """one Tyler / MM update from an arbitrary quadratic form (as used in the mixture M-step)"""
    from pb_bss.distribution import ComplexAngularCentralGaussianTrainer
    from symnp import stubs
    z = env.cplx('z', tuple(lead) + (1, D, N), lo=-1, hi=1)
    gam = env.real('g', tuple(lead) + (K, N), lo=0.05, hi=1)
    q = env.real('q', tuple(lead) + (K, N), lo=0.05, hi=4)
    if env.sym:
        stubs.EIGH_INPUTS.clear()
    m = ComplexAngularCentralGaussianTrainer()._fit(y=z, saliency=gam, quadratic_form=q, hermitize=hermitize, covariance_norm=norm, eigenvalue_floor=floor)
    cnt = 0
    for li in np.ndindex(*lead):
        for k in range(K):
            ev = [env.el(m.covariance_eigenvalues, li + (k, i)) for i in range(D)]
            if domain:
                if norm == 'eigenvalue':
                    for i in range(D):
                        env.le('eigenvalue_ge_floor%s[%d,%d]' % (list(li), k, i), floor, ev[i], atol=0.0, rtol=1e-9)
                        if not env.sym:
                            env.le('eigenvalue_le_1%s[%d,%d]' % (list(li), k, i), ev[i], 1.0)
                cnt += 1
                continue
            if not env.sym:
                cnt += 1
                S = np.zeros((D, D), dtype=complex)
                tot = 0.0
                for n in range(N):
                    zz = np.asarray(z)[li + (0, slice(None), n)]
                    S += np.asarray(gam)[li + (k, n)] / np.asarray(q)[li + (k, n)] * np.outer(zz, zz.conj())
                    tot += np.asarray(gam)[li + (k, n)]
                S = D * S / tot
                if norm == 'trace':
                    S = S / np.trace(S).real
                w = np.linalg.eigvalsh((S + S.conj().T) / 2)
                if norm == 'eigenvalue':
                    w = np.maximum(w / w.max(), floor)
                else:
                    w = np.maximum(w, w.max() * floor)
                env.eq('eigenvalues_of_tyler_update%s[%d]' % (list(li), k), np.asarray(ev, dtype=float), w, rtol=1e-6, atol=1e-9)
                continue
            A = stubs.EIGH_INPUTS[cnt] if len(stubs.EIGH_INPUTS) > cnt else None
            cnt += 1
            if A is None:
                env._record_plain('eigh_called_per_class', False)
                continue
            tot = _wsum(env, gam, li + (k,), N)
            trace = 0.0
            S = [[None] * D for _ in range(D)]
            for d in range(D):
                for e in range(D):
                    a = 0.0
                    for n in range(N):
                        a = env.el(z, li + (0, d, n)) * env.conj(env.el(z, li + (0, e, n))) * (env.el(gam, li + (k, n)) / env.el(q, li + (k, n))) + a
                    S[d][e] = a * D / tot
                trace = (S[d][d] if d == 0 else trace + S[d][d]) if True else None
            tr = 0.0
            for d in range(D):
                tr = env.re(S[d][d]) + tr
            if norm == 'trace':
                env.assume_path(tr >= 1e-6, 'trace of the weighted scatter >= 1e-6 (guard tiny inactive)')
            for d in range(D):
                for e in range(D):
                    want = S[d][e]
                    if norm == 'trace':
                        want = want / tr
                    env.eq('matrix_given_to_eigh_is_tyler_update%s[%d,%d,%d]' % (list(li), k, d, e), A[d, e], want)


def h_weights(env, lead=(2,), K=2, N=2, wca=(-1,), saliency=False, domain=False):
    from pb_bss.distribution.mixture_model_utils import estimate_mixture_weight
    a = env.real('g', tuple(lead) + (K, N), lo=0.0, hi=1.0)
    for li in np.ndindex(*(tuple(lead) + (N,))):
        s = 0.0
        for k in range(K):
            s = env.el(a, li[:-1] + (k, li[-1])) + s
        env.assume(s == 1.0, 'affiliations sum to one over the classes')
    sal = env.real('s', tuple(lead) + (N,), lo=0.1, hi=2) if saliency else None
    env.readonly(a)
    w = estimate_mixture_weight(a, saliency=sal, weight_constant_axis=wca)
    nd = len(lead) + 2
    axes = (wca,) if isinstance(wca, int) else tuple(wca)
    axes = tuple(x % nd for x in axes)
    if (nd - 2) in axes:
        env.eq('uniform_weights', w, np.full((K, 1), 1.0 / K))
        return
    full = np.broadcast_to(w, tuple(lead) + (K, N))
    for idx in np.ndindex(*(tuple(lead) + (K, N))):
        k = idx[-2]
        num = 0.0; den = 0.0
        for jdx in np.ndindex(*(tuple(lead) + (N,))):
            # same tie group: equal on all non-tied axes
            pos = jdx[:-1] + (None,) + (jdx[-1],)
            same = all(ax in axes or (pos[ax] == (idx[ax])) for ax in range(nd) if ax != nd - 2)
            if not same:
                continue
            sw = env.el(sal, jdx) if saliency else 1.0
            num = env.el(a, jdx[:-1] + (k, jdx[-1])) * sw + num
            for kk in range(K):
                den = env.el(a, jdx[:-1] + (kk, jdx[-1])) * sw + den
        got = env.el(full, idx)
        if domain:
            env.le('weight_nonnegative%s' % list(idx), 0.0, got)
        else:
            env.eq('weight_is_weighted_mean_affiliation%s' % list(idx), got, num / den)
    if domain:
        for li in np.ndindex(*(tuple(lead) + (N,))):
            s = 0.0
            for k in range(K):
                s = env.el(full, li[:-1] + (k, li[-1])) + s
            env.eq('weights_sum_to_one%s' % list(li), s, 1.0)


def h_repetition(env, model='cacgmm', K=2, N=2, D=2, counts=(2, 1), iterations=2):
    """an integer saliency s_n acts exactly like repeating observation n s_n times"""
    y = mm.observations(env, model, (), N, D)
    g0 = env.real('g', (1, N), lo=0.05, hi=0.95)
    init = np.concatenate([g0, 1 - g0], axis=0)          # affiliations sum to one over the K = 2 classes
    rep = [n for n in range(N) for _ in range(counts[n])]
    sal = np.array(counts, dtype=float)
    m1 = mm.fit(model, y, init, iterations=iterations, saliency=sal)
    m2 = mm.fit(model, y[rep], init[:, rep], iterations=iterations)
    p1, p2 = mm.params(m1), mm.params(m2)
    for k, v in p1.items():
        if hasattr(v, 'shape') and tuple(np.shape(v)) == tuple(np.shape(p2[k])):
            env.eq('saliency_equals_repetition:%s' % k, p2[k], v, rtol=1e-5)
    if model != 'cacgmm' or not env.sym:
        post1 = mm.predict(model, m1, y)
        post2 = mm.predict(model, m2, y)
        env.eq('saliency_equals_repetition:posterior', post2, post1, rtol=1e-5)


def h_alternation(env, model='cacgmm', K=2, N=2, D=2):
    """fit(iterations=2) == M-step, E-step (Bayes posterior of model 1), M-step"""
    from pb_bss import distribution as d
    y = mm.observations(env, model, (), N, D)
    init = env.real('g', (K, N), lo=0.05, hi=1.0)
    m2 = mm.fit(model, y, init, iterations=2)
    m1 = mm.fit(model, y, init, iterations=1)
    post1 = mm.predict(model, m1, y)
    if model == 'cacgmm':
        # the cACG M-step uses the quadratic forms of the preceding E-step; clipping eps = 1e-10 of the E-step posterior
        post1 = np.clip(post1, 1e-10, 1 - 1e-10)
        m2b = d.CACGMMTrainer().fit(y, initialization=m1, iterations=1)
    else:
        m2b = mm.fit(model, y, post1, iterations=1)
    pa, pb = mm.params(m2), mm.params(m2b)
    for k, v in pa.items():
        if hasattr(v, 'shape'):
            env.eq('two_iterations_are_M_E_M:%s' % k, pb[k], v, rtol=1e-5)


def cases(tier, domain=False):
    cs = []
    tag = 'domain/' if domain else ''
    for ct in ['full', 'diagonal', 'spherical']:
        cs.append(Case(tag + 'gaussian/%s' % ct, h_gaussian, dict(ctype=ct, lead=(2,), N=3, D=2, domain=domain), bounds='leading (2,), N=3 D=2 with saliency',
                       timeout_ms=60000, allow=('ValueError',)))
    if not domain:
        cs.append(Case('gaussian/full_nosal', h_gaussian, dict(ctype='full', lead=(1,), N=3, D=2, saliency=False), bounds='N=3 D=2 no saliency', timeout_ms=60000))
        cs.append(Case('complex_gaussian', h_complex_gaussian, dict(), bounds='leading (2,), N=2 D=2', timeout_ms=60000))
    cs.append(Case(tag + 'watson/default', h_watson, dict(lead=(2,), N=2, D=2, domain=domain), bounds='leading (2,), N=2 D=2, max_concentration 500', timeout_ms=60000))
    cs.append(Case(tag + 'watson/after_other_trainers', h_watson, dict(lead=(1,), N=2, D=2, max_c=20, before=[(2, 500), (3, 20)], domain=domain),
                   bounds='max_concentration 20, D=2, after trainers (D=2, max 500) and (D=3, max 20) in the same process', timeout_ms=60000))
    cs.append(Case(tag + 'watson/D3_after_D2', h_watson, dict(lead=(1,), N=3, D=3, max_c=500, before=[(2, 500)], saliency=False, domain=domain),
                   bounds='D=3 after a D=2 trainer in the same process', timeout_ms=60000))
    cs.append(Case(tag + 'vmf', h_vmf, dict(lead=(2,), N=2, D=2, domain=domain), bounds='leading (2,), N=2 D=2', timeout_ms=60000))
    if domain:
        cs.append(Case(tag + 'vmf/tiny_resultant', h_vmf, dict(lead=(1,), N=2, D=2, domain=True, tiny_saliency=True), bounds='N=2 D=2, saliency down to 1e-22 (resultant length down to 1e-30)', timeout_ms=60000))
    cs.append(Case(tag + 'vmf/narrow', h_vmf, dict(lead=(1,), N=2, D=3, kmin=0.5, kmax=5, domain=domain), bounds='N=2 D=3, concentration range [0.5, 5]', timeout_ms=60000))
    for norm in ['eigenvalue', False]:
        cs.append(Case(tag + 'cacg_step/%s' % norm, h_cacg_step, dict(lead=(), K=2, N=2, D=2, norm=norm, domain=domain), bounds='K=2 N=2 D=2 covariance_norm=%s' % norm, timeout_ms=60000))
    cs.append(Case(tag + 'cacg_step/lead_nohermitize', h_cacg_step, dict(lead=(2,), K=1, N=2, D=2, hermitize=False, domain=domain), bounds='leading (2,), K=1, hermitize off', timeout_ms=60000))
    for wca in [(-1,), (-3,), (-3, -1), -2, [-1], -1, -3]:
        for sal in [False, True]:
            if sal and wca not in [(-1,), (-3,)]:
                continue
            cs.append(Case(tag + 'weights/wca%s_sal%d' % (str(wca).replace(' ', ''), sal), h_weights, dict(lead=(2,), K=2, N=2, wca=wca, saliency=sal, domain=domain),
                           bounds='affiliation (2, K=2, N=2), weight_constant_axis=%s' % (wca,), timeout_ms=60000))
    if not domain:
        for model in ['cacgmm', 'cwmm', 'gmm_full', 'vmfmm']:
            cs.append(Case('repetition/%s' % model, h_repetition, dict(model=model, iterations=1 if model in ('cacgmm', 'gmm_full') else 2), bounds='K=2 N=2 D=2, saliency (2, 1), 2 iterations (1 for cacgmm / gmm_full)', lazy=True, timeout_ms=60000,
                           allow=('ValueError',), cosim=1))
            if model in ('cacgmm', 'gmm_full'):
                cs.append(Case('alternation/%s' % model, h_alternation, dict(model=model), bounds='K=2 N=2 D=2', lazy=True, timeout_ms=60000, allow=('ValueError',), cosim=1))
    return cs
