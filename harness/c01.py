"""C01  Affiliations are valid distributions and equal the model's Bayes posterior."""
import itertools
import numpy as np
from symnp.runner import Case

OUTSIDE = ('deflation initialiser (asserts F in {257, 513}); float32 / overflow / underflow behaviour (reals, not floats); '
           'K > 3, N > 2, F > 2; fit loops longer than the unrolled iterations are covered through '
           '"predict of an arbitrary model"')


# ---------------------------------------------------------------------------------------------
# H1  shared posterior routine
# ---------------------------------------------------------------------------------------------
def h1_posterior(env, K=3, N=2, F=None, wform='KN', mask=False, eps=0.0):
    from pb_bss.distribution.mixture_model_utils import log_pdf_to_affiliation
    lead = () if F is None else (F,)
    log_pdf = env.real('l', lead + (K, N), lo=-1000, hi=1000)
    wshape = {'K1': lead + (K, 1), 'KN': lead + (K, N), '1KN': (1,) * len(lead) + (K, N), 'scalar': ()}[wform]
    if wform == 'scalar':
        weight = 1.0 / K
        w_full = np.full(lead + (K, N), 1.0 / K)
    else:
        weight = env.real('w', wshape, lo=1e-6, hi=1.0)
        w_full = np.broadcast_to(weight, lead + (K, N)) if not env.sym else None
    m = env.boolean('m', lead + (K, N), fork=True) if mask else None
    log_pdf_in = log_pdf.copy()
    gamma = log_pdf_to_affiliation(weight, log_pdf, source_activity_mask=m, affiliation_eps=eps)
    if eps:
        gamma0 = log_pdf_to_affiliation(weight, log_pdf_in.copy(), source_activity_mask=m, affiliation_eps=0.)
    env.shape_is('shape', gamma, lead + (K, N))
    env.eq('log_pdf_untouched', log_pdf, log_pdf_in)
    zero = 0.0
    for f in (np.ndindex(*lead) if lead else [()]):
        for n in range(N):
            g = [env.el(gamma, f + (k, n)) for k in range(K)]
            l = [env.el(log_pdf_in, f + (k, n)) for k in range(K)]
            if wform == 'scalar':
                w = [1.0 / K] * K
            else:
                wb = weight if env.sym else np.asarray(weight)
                w = [env.el(_bc(env, weight, lead + (K, N)), f + (k, n)) for k in range(K)]
            act = [env.el(m, f + (k, n)) for k in range(K)] if mask else [True] * K
            tag = '%s%d' % (list(f), n)
            for k in range(K):
                env.le('ge0' + tag, zero, g[k])
                env.le('le1' + tag, g[k], 1.0)
            s = g[0]
            for k in range(1, K):
                s = s + g[k]
            if eps == 0:
                if not mask:
                    env.eq('sum1' + tag, s, 1.0)
                else:
                    anyact = _any(act)
                    # active somewhere -> sums to one; inactive class -> exactly zero
                    env.true('sum1_if_active' + tag, _implies(env, anyact, _close(env, s, 1.0)))
                    for k in range(K):
                        env.true('zero_if_inactive' + tag, _implies(env, _not(act[k]), _iszero(env, g[k])))
                # Bayes: g_k * pi_j m_j e^{l_j} == g_j * pi_k m_k e^{l_k}
                shift = 0.0 if env.sym else max(l)
                for k, j in itertools.combinations(range(K), 2):
                    lhs = g[k] * w[j] * _b2r(env, act[j]) * env.exp(l[j] - shift)
                    rhs = g[j] * w[k] * _b2r(env, act[k]) * env.exp(l[k] - shift)
                    env.eq('bayes%d%d' % (k, j) + tag, lhs, rhs, atol=1e-12)
            else:
                # clipped posterior = clip(unclipped posterior) entrywise; the sum bound then follows from
                # the abstract (linear) lemma below, proved once per K
                g0 = [env.el(gamma0, f + (k, n)) for k in range(K)]
                for k in range(K):
                    if env.sym:
                        from symnp.core import ite
                        c = ite(g0[k] <= eps, eps, ite(g0[k] >= 1 - eps, 1 - eps, g0[k]))
                    else:
                        c = min(max(g0[k], eps), 1 - eps)
                    env.eq('clip_of_posterior' + tag, g[k], c)
                    env.le('ge_eps' + tag, eps, g[k])
                    env.le('le_1meps' + tag, g[k], 1 - eps)
    if eps and env.sym:
        import z3
        from symnp.core import zr
        gs = [z3.Real('lem_g%d' % k) for k in range(K)]
        e = zr(eps)
        cl = [z3.If(x <= e, e, z3.If(x >= 1 - e, 1 - e, x)) for x in gs]
        env.lemma('sum_of_clipped_within_K_eps',
                  [z3.Sum(gs) == 1] + [z3.And(x >= 0, x <= 1) for x in gs],
                  z3.And(z3.Sum(cl) >= 1 - K * e, z3.Sum(cl) <= 1 + K * e))


def _bc(env, a, shape):
    return np.broadcast_to(a, shape)


def _b2r(env, b):
    if isinstance(b, (bool, np.bool_)):
        return 1.0 if b else 0.0
    return b._as_real()


def _any(bs):
    r = bs[0]
    for b in bs[1:]:
        r = r | b
    return r


def _not(b):
    if isinstance(b, (bool, np.bool_)):
        return not b
    return ~b


def _implies(env, a, b):
    if isinstance(a, (bool, np.bool_)):
        return (not a) or bool(b)
    return (~a) | b


def _close(env, x, v):
    if env.sym:
        return x == v
    return abs(x - v) <= 1e-9


def _iszero(env, x):
    if env.sym:
        return x == 0
    return x == 0


def h_flag(env, K=3, N=5, lead=(2,)):
    """flag initialiser: non-assigned classes get exactly `minimum`, the assigned class the remainder"""
    from pb_bss.initializer.deterministic import flag
    mn = env.real('minimum', (), lo=1e-6, hi=1.0 / K - 1e-6)
    Y = np.ones(tuple(lead) + (N, 2))
    init = flag(Y, K, permutation_free=True, minimum=mn if env.sym else float(mn))
    env.shape_is('init', init, tuple(lead) + (K, N))
    lab = np.linspace(0, K, N, dtype=int, endpoint=False)
    for li in np.ndindex(*lead):
        for n in range(N):
            s = 0.0
            for k in range(K):
                v = env.el(init, li + (k, n))
                s = s + v
                if k == lab[n]:
                    env.eq('assigned_gets_remainder%s[%d,%d]' % (list(li), k, n), v, 1 - (K - 1) * env.el(mn))
                else:
                    env.eq('others_get_minimum%s[%d,%d]' % (list(li), k, n), v, env.el(mn))
            env.eq('sums_to_one%s[%d]' % (list(li), n), s, 1.0)
    init0 = flag(Y, K, permutation_free=True)
    env.eq('minimum0_is_one_hot', init0, np.broadcast_to(np.eye(K)[lab].T, tuple(lead) + (K, N)))


def h_cacgmm_predict(env, K=2, N=1, D=2, mask=True, api='predict'):
    """CACGMM.predict / fit_predict: Bayes posterior from the component's own log_pdf and the stored weights; inactive
    sources get exactly zero"""
    from pb_bss.distribution import CACGMM, ComplexAngularCentralGaussian, CACGMMTrainer
    y = env.cplx('y', (N, D), lo=-2, hi=2)
    m_act = env.boolean('act', (K, N), fork=True) if mask else None
    if api == 'predict':
        V = env.cplx('V', (K, D, D), lo=-1, hi=1)
        w = env.real('w', (K, D), lo=1e-3, hi=1)
        pi = env.real('pi', (K, 1), lo=0.05, hi=1)
        model = CACGMM(weight=pi, cacg=ComplexAngularCentralGaussian(covariance_eigenvectors=V, covariance_eigenvalues=w))
        post = model.predict(y, source_activity_mask=m_act)
    else:
        init = env.real('g', (K, N), lo=0.05, hi=1)
        post = CACGMMTrainer().fit_predict(y, initialization=init, iterations=1, source_activity_mask=m_act)
        model = CACGMMTrainer().fit(y, initialization=init, iterations=1, source_activity_mask=m_act)
        pi = model.weight
    env.shape_is('posterior', post, (K, N))
    lps = [ComplexAngularCentralGaussian(covariance_eigenvectors=model.cacg.covariance_eigenvectors[k],
                                         covariance_eigenvalues=model.cacg.covariance_eigenvalues[k]).log_pdf(y) for k in range(K)]
    for n in range(N):
        act = [env.el(m_act, (k, n)) if mask else True for k in range(K)]
        g = [env.el(post, (k, n)) for k in range(K)]
        for k in range(K):
            env.true('zero_if_inactive[%d,%d]' % (k, n), _implies(env, _not(act[k]), _iszero(env, g[k])))
        l = [env.el(lps[k], (n,)) for k in range(K)]
        shift = 0.0 if env.sym else max(l)
        for k, j in itertools.combinations(range(K), 2):
            lhs = g[k] * env.el(pi, (j, 0)) * _b2r(env, act[j]) * env.exp(l[j] - shift)
            rhs = g[j] * env.el(pi, (k, 0)) * _b2r(env, act[k]) * env.exp(l[k] - shift)
            env.eq('bayes%d%d[%d]' % (k, j, n), lhs, rhs, atol=1e-12)


def h_integration_predict(env, model='gcacgmm', F=2, K=2, T=1, D=2, E=1):
    """GCACGMM / VMFCACGMM.predict: Bayes' rule with the product of the exponent-weighted stream densities, each taken
    from the component distribution's own log_pdf, per frequency / class / frame (axis plumbing)"""
    from pb_bss import distribution as d
    obs = env.cplx('y', (F, T, D), lo=-2, hi=2)
    emb = env.real('e', (F, T, E), lo=-2, hi=2)
    V = env.cplx('V', (F, K, D, D), lo=-1, hi=1)
    w = env.real('w', (F, K, D), lo=1e-3, hi=1)
    pi = env.real('pi', (F, K), lo=0.05, hi=1)
    sw = env.real('sw', (), lo=0.5, hi=2)
    cw = env.real('cw', (), lo=0.5, hi=2)
    # oracle first: frame norms (the code's `tiny` guard resolves once |y| >= 0.2 is known)
    z = {}
    for f in range(F):
        for t in range(T):
            S = None
            for dd in range(D):
                a = env.abs2(env.el(obs, (f, t, dd)))
                S = a if S is None else S + a
            env.assume(S >= 0.05, 'every observation frame has squared norm >= 0.05')
            nrm = env.sqrt(S)
            env.prove_and_use('frame_norm_ge_0.2[%d,%d]' % (f, t), nrm >= 0.2)
    cacg = d.ComplexAngularCentralGaussian(covariance_eigenvectors=V, covariance_eigenvalues=w)
    if model == 'gcacgmm':
        mean = env.real('mu', (K, E), lo=-2, hi=2)
        var = env.real('var', (K,), lo=0.2, hi=3)
        comp = d.SphericalGaussian(mean=mean, covariance=var)
        m = d.GCACGMM(weight=pi, weight_constant_axis=(-1,), gaussian=comp, cacg=cacg, spatial_weight=sw if env.sym else float(sw), spectral_weight=cw if env.sym else float(cw))
    else:
        mean = env.real('mu', (K, E), lo=-1, hi=1)
        kap = env.real('kap', (K,), lo=0.1, hi=50)
        comp = d.VonMisesFisher(mean=mean, concentration=kap)
        m = d.VMFCACGMM(weight=pi, weight_constant_axis=(-1,), vmf=comp, cacg=cacg, spatial_weight=sw if env.sym else float(sw), spectral_weight=cw if env.sym else float(cw))
        for f in range(F):
            for t in range(T):
                S = None
                for ee in range(E):
                    a = env.el(emb, (f, t, ee)) * env.el(emb, (f, t, ee))
                    S = a if S is None else S + a
                env.assume(S >= 0.05, 'every embedding frame has squared norm >= 0.05')
                env.prove_and_use('embedding_norm_ge_0.2[%d,%d]' % (f, t), env.sqrt(S) >= 0.2)
    post = m.predict(obs, emb)
    env.shape_is('posterior', post, (F, K, T))
    for f in range(F):
        for t in range(T):
            frame = obs[f, t][None, :]                                   # (N=1, D)
            l = []
            for k in range(K):
                ck = d.ComplexAngularCentralGaussian(covariance_eigenvectors=V[f, k], covariance_eigenvalues=w[f, k])
                lsp = env.el(ck.log_pdf(frame), (0,))
                if model == 'gcacgmm':
                    one = d.SphericalGaussian(mean=mean[k], covariance=var[k])
                else:
                    one = d.VonMisesFisher(mean=mean[k], concentration=kap[k])
                lsc = env.el(one.log_pdf(emb[f, t][None, :]), (0,))
                l.append(env.el(sw) * lsp + env.el(cw) * lsc)
            g = [env.el(post, (f, k, t)) for k in range(K)]
            s = g[0]
            for k in range(1, K):
                s = s + g[k]
            env.eq('sum1[%d,%d]' % (f, t), s, 1.0)
            shift = 0.0 if env.sym else max(l)
            for k, j in itertools.combinations(range(K), 2):
                lhs = g[k] * env.el(pi, (f, j)) * env.exp(l[j] - shift)
                rhs = g[j] * env.el(pi, (f, k)) * env.exp(l[k] - shift)
                env.eq('bayes%d%d[%d,%d]' % (k, j, f, t), lhs, rhs, atol=1e-12)


# properties whose thorough extras were run end-to-end on the unchanged tree (exit 0); others: thorough == quick
from harness.thorough_verified import THOROUGH_VERIFIED


def cases(tier):
    cs = []
    cs.append(Case('h3/flag_K3', h_flag, dict(K=3, N=5, lead=(2,)), bounds='K=3 N=5 leading (2,), symbolic minimum in (0, 1/K)'))
    cs.append(Case('h3/flag_K2', h_flag, dict(K=2, N=3, lead=(1, 1)), bounds='K=2 N=3 leading (1,1)'))
    cs.append(Case('h2/cacgmm_predict_mask', h_cacgmm_predict, dict(K=2, N=1, D=2, mask=True, api='predict'), bounds='K=2 N=1 D=2, all masks', timeout_ms=60000))
    for model in ['gcacgmm', 'vmfcacgmm']:
        cs.append(Case('h2/%s_predict' % model, h_integration_predict, dict(model=model, F=2, K=2, T=1, D=2, E=1 if model == 'gcacgmm' else 2),
                       bounds='F=2 K=2 T=1 D=2, arbitrary model parameters and stream weights in [0.5, 2]', timeout_ms=120000))
    cs.append(Case('h2/cacgmm_fit_predict_mask', h_cacgmm_predict, dict(K=2, N=1, D=2, mask=True, api='fit_predict'), bounds='K=2 N=1 D=2, one iteration, all masks',
                   timeout_ms=60000, lazy=True))
    import os
    quick = tier == 'quick' or 'C01' not in THOROUGH_VERIFIED and os.environ.get('VERIF_TRY_EXTRAS') != '1'
    for wform in ['K1', 'KN', 'scalar']:
        for mask in [False, True]:
            for eps in [0.0, 1e-10]:
                if mask and eps:
                    continue
                Ks = [2, 3] if quick else [2, 3, 4]
                for K in Ks:
                    cs.append(Case('h1/K%d_w%s_mask%d_eps%g' % (K, wform, mask, eps), h1_posterior,
                                   dict(K=K, N=1 if K > 2 else 2, wform=wform, mask=mask, eps=eps),
                                   bounds='K=%d N<=2 no leading axis; weights in [1e-6,1]; log_pdf in [-50,50]' % K))
    cs.append(Case('h1/F2_K2_wK1_mask1', h1_posterior, dict(K=2, N=1, F=2, wform='K1', mask=True),
                   bounds='K=2 N=1 F=2, all 16 masks'))
    cs.append(Case('h1/F2_K2_w1KN', h1_posterior, dict(K=2, N=2, F=2, wform='1KN', mask=False),
                   bounds='K=2 N=2 F=2, weight (1,K,N)'))
    return cs
