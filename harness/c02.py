"""C02  EM iterations never decrease the mixture log-likelihood (decided clause: log_likelihood is the mixture log-likelihood)."""
import numpy as np
from symnp.runner import Case

OUTSIDE = ('clause 1 (monotonicity of the likelihood over EM iterations) is an analytic inequality (Jensen / minorise-maximise, '
           'Dempster et al. 1977, Ito et al. 2016): for cACG a rational inequality of degree ~2 D N K through an eigendecomposition, '
           'for GMM / cWMM with exponentials of rational functions; no bounded instance is within reach of nlsat / cvc5. NOT decided. '
           'Its algebraic premises are decided elsewhere: E-step = Bayes posterior (C01), M-steps = documented estimators (C08), '
           'log_pdf = the density the M-step maximises (C07)')


def h_loglik(env, K=2, N=2, D=2, lead=(), wshape='K1'):
    from pb_bss.distribution import CACGMM, ComplexAngularCentralGaussian
    V = env.cplx('V', tuple(lead) + (K, D, D), lo=-1, hi=1)
    w = env.real('w', tuple(lead) + (K, D), lo=1e-3, hi=1)
    pi = env.real('pi', (tuple(lead) + (K, 1)) if wshape == 'K1' else ((1,) * len(lead) + (K, N)), lo=0.05, hi=1)
    y = env.cplx('y', tuple(lead) + (N, D), lo=-2, hi=2)
    m = CACGMM(weight=pi, cacg=ComplexAngularCentralGaussian(covariance_eigenvectors=V, covariance_eigenvalues=w))
    ll = m.log_likelihood(y)
    # oracle: sum_n log sum_k pi_k p_k(y_n) with p_k from the component's own log_pdf on the class-k slice
    tot = 0.0
    pib = np.broadcast_to(pi, tuple(lead) + (K, N))
    for li in (np.ndindex(*lead) if lead else [()]):
        lps = []
        for k in range(K):
            comp = ComplexAngularCentralGaussian(covariance_eigenvectors=V[li + (k,)], covariance_eigenvalues=w[li + (k,)])
            lps.append(comp.log_pdf(y[li]))
        for n in range(N):
            s = None
            if env.sym:
                for k in range(K):
                    t = env.el(pib, li + (k, n)) * env.exp(env.el(lps[k], (n,)))
                    s = t if s is None else s + t
                tot = env.log(s) + tot
            else:
                vals = [float(np.asarray(lps[k])[n]) for k in range(K)]
                mx = max(vals)
                s = sum(float(np.asarray(pib)[li + (k, n)]) * np.exp(vals[k] - mx) for k in range(K))
                tot = tot + mx + np.log(s)
    env.eq('log_likelihood_is_weighted_mixture_log_likelihood', ll, tot, rtol=1e-6)


def cases(tier):
    return [
        Case('log_likelihood/K2', h_loglik, dict(K=2, N=2, D=2), bounds='K=2 N=2 D=2, arbitrary cACG parameters and weights (K,1)', timeout_ms=120000),
        Case('log_likelihood/K2_N1_weightKN', h_loglik, dict(K=2, N=1, D=2, lead=(1,), wshape='KN'), bounds='F=1 K=2 N=1, weights (1,K,N)', timeout_ms=120000),
    ]
