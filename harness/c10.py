"""C10  PSD estimate is the mask-weighted mean outer product; condition_covariance."""
import itertools
import numpy as np
from symnp.runner import Case

OUTSIDE = ('D > 3, T > 3, K > 2, more than 2 leading axes; rounding; the 1e-10 normalisation guard is only exercised on '
           'its inactive side (sum_t m >= 1e-6) plus the exact all-zero mask')


def _psd_oracle(env, X, M, lead_idx, k, D, T, normalize, has_mask):
    """scalar-loop definition: sum_t m[t] x[t] x[t]^H / sum_t m[t]   (X: (..., D, T) layout accessor)"""
    out = [[None] * D for _ in range(D)]
    msum = None
    if has_mask:
        msum = 0.0
        for t in range(T):
            msum = msum + M(lead_idx, k, t)
    for d in range(D):
        for e in range(D):
            s = 0.0
            for t in range(T):
                x = X(lead_idx, d, t)
                y = env.conj(X(lead_idx, e, t))
                term = x * y
                if has_mask:
                    term = term * M(lead_idx, k, t)
                s = s + term
            if not has_mask:
                s = s / T
            out[d][e] = s
    return out, msum


def h_psd(env, lead=(2,), D=2, T=3, K=None, layout='default', mask_kind='none', normalize=True, booleans=False,
          sensor_dim=-2, time_dim=-1, source_dim=-2):
    """layout: observation axes order is described by (sensor_dim, time_dim); the oracle always reads
    element (lead, d, t) through an accessor so axis handling is independent of the code's transposes."""
    from pb_bss.extraction.beamformer import get_power_spectral_density_matrix as psd_fn
    nd = len(lead) + 2
    sd, td = sensor_dim % nd, time_dim % nd
    shape = [None] * nd
    shape[sd], shape[td] = D, T
    it = iter(lead)
    lead_axes = [i for i in range(nd) if i not in (sd, td)]
    for i in lead_axes:
        shape[i] = next(it)
    obs = env.cplx('x', shape, lo=-4, hi=4)
    env.readonly(obs)

    def X(li, d, t):
        idx = [None] * nd
        idx[sd], idx[td] = d, t
        for a, v in zip(lead_axes, li):
            idx[a] = v
        return env.el(obs, tuple(idx))

    mask = None
    if mask_kind == 'plain':            # (..., T): same leading axes as the observation without sensors
        mshape = tuple(lead) + (T,)
        if booleans:
            mask = env.boolean('m', mshape, fork=True)
        else:
            mask = env.real('m', mshape, lo=0, hi=4)

        def M(li, k, t):
            v = env.el(mask, tuple(li) + (t,))
            return _b2r(v)
        Ks = [None]
    elif mask_kind == 'source':         # mask has a source axis at source_dim, time at time_dim (same ndim as obs)
        smd = source_dim % nd
        assert smd != td
        mshape = [None] * nd
        mshape[smd], mshape[td] = K, T
        m_lead_axes = [i for i in range(nd) if i not in (smd, td)]
        for a, v in zip(m_lead_axes, lead):
            mshape[a] = v
        if booleans:
            mask = env.boolean('m', mshape, fork=True)
        else:
            mask = env.real('m', mshape, lo=0, hi=4)

        def M(li, k, t):
            idx = [None] * nd
            idx[smd], idx[td] = k, t
            for a, v in zip(m_lead_axes, li):
                idx[a] = v
            return _b2r(env.el(mask, tuple(idx)))
        Ks = list(range(K))
    else:
        M = None
        Ks = [None]
    if mask is not None:
        env.readonly(mask)
        if not booleans and normalize:
            # keep the 1e-10 guard inactive: the property's clause is the exact weighted mean
            for li in np.ndindex(*lead):
                for k in Ks:
                    s = 0.0
                    for t in range(T):
                        s = s + M(li, k, t)
                    env.assume(s >= 1e-6, 'sum_t mask >= 1e-6 (normalisation guard 1e-10 inactive)')
    obs0 = obs.copy()
    mask0 = None if mask is None else mask.copy()
    kw = dict(sensor_dim=sensor_dim, time_dim=time_dim, normalize=normalize)
    if mask_kind == 'source':
        kw['source_dim'] = source_dim
    psd = psd_fn(obs, mask, **kw)
    env.eq('observation_untouched', obs, obs0)
    if mask is not None:
        env.eq('mask_untouched', mask, mask0)
    # expected output layout
    if mask_kind == 'source':
        if source_dim % nd - nd < -2:
            exp_shape = list(lead)
            exp_shape.insert(source_dim % nd, K)
            exp_shape = tuple(exp_shape) + (D, D)
            src_pos = source_dim % nd
        else:
            exp_shape = tuple(lead) + (K, D, D)
            src_pos = len(lead)
    else:
        exp_shape = tuple(lead) + (D, D)
        src_pos = None
    env.shape_is('psd', psd, exp_shape)
    if tuple(psd.shape) != tuple(exp_shape):
        return
    for li in np.ndindex(*lead):
        for k in Ks:
            want, msum = _psd_oracle(env, X, M, li, k, D, T, normalize, mask is not None)
            if src_pos is None:
                pidx = tuple(li)
            else:
                pidx = list(li)
                pidx.insert(src_pos, k)
                pidx = tuple(pidx)
            for d in range(D):
                for e in range(D):
                    got = env.el(psd, pidx + (d, e))
                    tag = '%s%s%d%d' % (list(li), '' if k is None else 'k%d' % k, d, e)
                    if mask is not None and normalize:
                        if booleans and not env.sym:
                            ms = msum if msum > 0 else 1.0
                            env.eq('weighted_mean' + tag, got * ms, want[d][e])
                        elif booleans:
                            # forked booleans: msum is a concrete count on each path
                            from symnp.core import SR
                            ms = SR(msum)
                            if ms.is_conc and ms.v == 0:
                                env.eq('zero_mask_zero_psd' + tag, got, 0.0)
                            else:
                                env.eq('weighted_mean' + tag, got * msum, want[d][e])
                        else:
                            env.eq('weighted_mean' + tag, got * msum, want[d][e])
                    else:
                        env.eq('psd' + tag, got, want[d][e])
                    # Hermitian
                    env.eq('hermitian' + tag, got, env.conj(env.el(psd, pidx + (e, d))))
            # positive semidefinite: u^H Psi u >= 0 for a symbolic probe u, via the identity lemma
            #   u^H S u = sum_t m_t |x_t^H u|^2   (S = unnormalised sum), then non-negativity of a sum of
            #   non-negative mask values times squares (abstract lemma).
            _psd_lemma(env, X, M, li, k, D, T, mask is not None, want, msum, normalize,
                       tag='%s%s' % (list(li), '' if k is None else 'k%d' % k))


def _b2r(v):
    if isinstance(v, (bool, np.bool_)):
        return 1.0 if v else 0.0
    if hasattr(v, '_as_real'):
        return v._as_real()
    return v


def _psd_lemma(env, X, M, li, k, D, T, has_mask, want, msum, normalize, tag):
    if not env.sym:
        # numeric: smallest eigenvalue of the oracle matrix >= -tol
        W = np.array([[complex(want[d][e]) for e in range(D)] for d in range(D)])
        ev = np.linalg.eigvalsh((W + W.conj().T) / 2)
        env.le('psd_min_eig' + tag, -1e-9 * (1 + abs(ev).max()), ev.min())
        return
    import z3
    from symnp.core import SC, SR
    u = [SC(SR(z3.Real('u%dr' % d)), SR(z3.Real('u%di' % d))) for d in range(D)]
    quad = 0
    for d in range(D):
        for e in range(D):
            quad = u[d].conjugate() * want[d][e] * u[e] + quad
    sq = 0
    for t in range(T):
        ip = 0
        for d in range(D):
            ip = env.conj(X(li, d, t)) * u[d] + ip          # x_t^H u
        term = env.abs2(ip)
        if has_mask:
            term = term * M(li, k, t)
        else:
            term = term / T
        sq = term + sq
    env.eq('quadratic_form_is_weighted_sum_of_squares' + tag, quad, sq)
    if tag.endswith('0]') or tag.endswith('k0'):
        a = [z3.Real('lem_a%d' % t) for t in range(T)]
        m = [z3.Real('lem_m%d' % t) for t in range(T)]
        env.lemma('weighted_sum_of_squares_nonneg_T%d' % T, [x >= 0 for x in m],
                  z3.Sum([m[t] * a[t] * a[t] for t in range(T)]) >= 0)


def h_scale(env, D=2, T=3, K=2):
    """normalised PSD is invariant to positive rescaling of the mask"""
    from pb_bss.extraction.beamformer import get_power_spectral_density_matrix as psd_fn
    obs = env.cplx('x', (D, T), lo=-4, hi=4)
    mask = env.real('m', (K, T), lo=0, hi=4)
    alpha = env.real('alpha', (), lo=1e-3, hi=1e3)
    for k in range(K):
        s = 0.0
        for t in range(T):
            s = s + env.el(mask, (k, t))
        env.assume(s >= 1e-3, 'sum_t mask >= 1e-3 and alpha in [1e-3, 1e3] (normalisation guard inactive for both calls)')
    p1 = psd_fn(obs, mask)
    p2 = psd_fn(obs, mask * alpha)
    env.eq('scale_invariant', p1, p2)


def h_zero_mask(env, D=2, T=3, K=2, lead=(2,)):
    from pb_bss.extraction.beamformer import get_power_spectral_density_matrix as psd_fn
    obs = env.cplx('x', tuple(lead) + (D, T), lo=-4, hi=4)
    mask = np.zeros(tuple(lead) + (K, T))
    p = psd_fn(obs, mask)
    env.eq('zero_mask_zero_psd', p, np.zeros(tuple(lead) + (K, D, D)))
    p = psd_fn(obs, np.zeros(tuple(lead) + (T,)))
    env.eq('zero_plain_mask_zero_psd', p, np.zeros(tuple(lead) + (D, D)))
    p = psd_fn(obs, np.zeros(tuple(lead) + (K, T), dtype=bool))
    env.eq('zero_bool_mask_zero_psd', p, np.zeros(tuple(lead) + (K, D, D)))


def h_condition(env, lead=(2,), D=2):
    from pb_bss.extraction.beamformer import condition_covariance
    Lm = env.cplx('L', tuple(lead) + (D, D), lo=-3, hi=3)
    gamma = env.real('gamma', (), lo=0, hi=10)
    if env.sym:
        x = Lm @ np.conjugate(np.swapaxes(Lm, -1, -2))       # Hermitian PSD by construction
    else:
        x = Lm @ np.conjugate(np.swapaxes(Lm, -1, -2))
    x0 = x.copy()
    env.readonly(x)
    out = condition_covariance(x, gamma)
    env.eq('input_untouched', x, x0)
    env.shape_is('out', out, tuple(lead) + (D, D))
    g = env.el(gamma)
    for li in np.ndindex(*lead):
        tr = 0.0
        for d in range(D):
            tr = tr + env.el(x0, li + (d, d))
        tr_out = 0.0
        for d in range(D):
            for e in range(D):
                want = env.el(x0, li + (d, e))
                if d == e:
                    want = want + g * tr / D
                want = want / (1 + g)
                env.eq('formula%s%d%d' % (list(li), d, e), env.el(out, li + (d, e)), want)
                env.eq('hermitian%s%d%d' % (list(li), d, e), env.el(out, li + (d, e)), env.conj(env.el(out, li + (e, d))))
            tr_out = tr_out + env.el(out, li + (d, d))
        env.eq('trace_preserved%s' % list(li), tr_out, tr)


# properties whose thorough extras were run end-to-end on the unchanged tree (exit 0); others: thorough == quick
from harness.thorough_verified import THOROUGH_VERIFIED


def cases(tier):
    import os
    q = tier == 'quick' or 'C10' not in THOROUGH_VERIFIED and os.environ.get('VERIF_TRY_EXTRAS') != '1'
    cs = []
    D, T = (2, 2) if q else (3, 3)
    # no mask: every (sensor_dim, time_dim) with time_dim != -1 allowed by the property, ndim 2..4
    for lead in [(), (2,), (2, 2)] if not q else [(), (2,)]:
        nd = len(lead) + 2
        for sd, td in itertools.permutations(range(-nd, 0), 2):
            if q and (sd, td) not in [(-2, -1), (-1, -2), (-nd, -1), (-1, -nd)]:
                continue
            cs.append(Case('nomask/lead%s_s%d_t%d' % (len(lead), sd, td), h_psd,
                           dict(lead=lead, D=D, T=T, mask_kind='none', sensor_dim=sd, time_dim=td),
                           bounds='lead=%s D=%d T=%d' % (lead, D, T)))
    # plain mask (..., T): default layout and normalize on/off, float/bool
    for lead in [(2,), (2, 2)] if not q else [(2,)]:
        for normalize in [True, False]:
            for booleans in [False, True]:
                if booleans and len(lead) > 1:
                    continue
                cs.append(Case('plain/lead%d_norm%d_bool%d' % (len(lead), normalize, booleans), h_psd,
                               dict(lead=lead if not booleans else (1,), D=D, T=T if not booleans else 3, mask_kind='plain', normalize=normalize, booleans=booleans),
                               bounds='lead=%s D=%d T=%d %s mask' % (lead, D, T, 'bool (all values)' if booleans else 'float')))
    # source-axis mask: source_dim choices, K
    for lead in [(2,)] if q else [(2,), (2, 2)]:
        nd = len(lead) + 2
        for source_dim in sorted(set([-2, 0] + ([1 - nd] if nd > 3 else []))):
            for normalize in [True, False]:
                cs.append(Case('source/lead%d_src%d_norm%d' % (len(lead), source_dim, normalize), h_psd,
                               dict(lead=lead, D=D, T=T, K=2, mask_kind='source', normalize=normalize, source_dim=source_dim),
                               bounds='lead=%s D=%d T=%d K=2 source_dim=%d' % (lead, D, T, source_dim)))
    cs.append(Case('source/bool', h_psd, dict(lead=(1,), D=2, T=2, K=2, mask_kind='source', booleans=True),
                   bounds='lead=(1,) D=2 T=2 K=2 boolean mask, all 16 values'))
    # non-default time_dim with a source-axis mask
    cs.append(Case('source/time_dim', h_psd, dict(lead=(2,), D=D, T=T, K=2, mask_kind='source', sensor_dim=-1, time_dim=-2, source_dim=-1),
                   bounds='observation (F,T,D), mask (F,T,K)'))
    cs.append(Case('scale', h_scale, dict(D=D, T=T + 1, K=2), bounds='D=%d T=%d K=2' % (D, T + 1)))
    cs.append(Case('zero_mask', h_zero_mask, dict(D=D, T=T), bounds='concrete all-zero masks (float, bool), symbolic observation'))
    for lead in [(), (2,)]:
        cs.append(Case('condition/lead%d' % len(lead), h_condition, dict(lead=lead, D=D), bounds='lead=%s D=%d' % (lead, D)))
    return cs
