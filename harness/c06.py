"""C06  Leading (frequency/batch) axes are independent problems."""
import itertools
import numpy as np
from symnp.runner import Case
from harness import mm_common as mm

OUTSIDE = ('leading shapes beyond (2,), (1,2), (2,1); N > 3, D > 2, K > 2; iterations > 2; cBMM / complex Bingham (numeric root '
           'finder); integration models (documented without independent axes)')


def _dist(name):
    from pb_bss import distribution as d
    return {
        'gaussian_full': (d.GaussianTrainer, dict(covariance_type='full'), False),
        'gaussian_diagonal': (d.GaussianTrainer, dict(covariance_type='diagonal'), False),
        'gaussian_spherical': (d.GaussianTrainer, dict(covariance_type='spherical'), False),
        'complex_gaussian': (d.ComplexCircularSymmetricGaussianTrainer, {}, True),
        'vmf': (d.VonMisesFisherTrainer, {}, False),
        'watson': (d.ComplexWatsonTrainer, {}, True),
        'cacg': (d.ComplexAngularCentralGaussianTrainer, {}, True),
    }[name]


def h_dist(env, name='watson', lead=(2,), N=3, D=2, saliency=True, fit_kw=None):
    """trainer + log_pdf of a single distribution: stacked == per slice"""
    Tr, kw, cplx = _dist(name)
    kw = dict(kw, **(fit_kw or {}))
    y = env.cplx('y', tuple(lead) + (N, D), lo=-2, hi=2) if cplx else env.real('y', tuple(lead) + (N, D), lo=-2, hi=2)
    sal = env.real('s', tuple(lead) + (N,), lo=0.1, hi=2.0) if (saliency and name != 'cacg') else None
    env.readonly(y)
    if name == 'cacg':
        kw = dict(kw, iterations=2)
    stacked = Tr().fit(y, saliency=sal, **kw) if sal is not None else Tr().fit(y, **kw)
    ps = mm.params(stacked)
    lp = stacked.log_pdf(y)
    env.shape_is('log_pdf', lp, tuple(lead) + (N,))
    for li in np.ndindex(*lead):
        one = Tr().fit(y[li], saliency=sal[li], **kw) if sal is not None else Tr().fit(y[li], **kw)
        po = mm.params(one)
        for k, v in po.items():
            if tuple(np.shape(ps[k])) != tuple(lead) + tuple(np.shape(v)):
                env._record_plain('param_%s:stacked_shape' % k, False, detail='%s vs %s + %s' % (np.shape(ps[k]), lead, np.shape(v)))
                continue
            env.eq('param_%s%s' % (k, list(li)), ps[k][li], v)
        env.eq('log_pdf%s' % list(li), lp[li], one.log_pdf(y[li]))


def h_mixture(env, model='cacgmm', lead=(2,), K=2, N=2, D=2, iterations=2, singleton_init=False, fit_kw=None):
    y = mm.observations(env, model, lead, N, D)
    env.readonly(y)
    kw = dict(fit_kw or {})
    if singleton_init:
        init1 = env.real('g', (1,) * len(lead) + (K, N), lo=0.05, hi=1.0)
        stacked = mm.fit(model, y, init1, iterations=iterations, **kw)
        rep = np.broadcast_to(init1, tuple(lead) + (K, N))
        ref = mm.fit(model, y, rep, iterations=iterations, **kw)
        for k, v in mm.params(ref).items():
            env.eq('singleton_init_param_%s' % k, mm.params(stacked)[k], v)
        return
    init = env.real('g', tuple(lead) + (K, N), lo=0.05, hi=1.0)
    stacked = mm.fit(model, y, init, iterations=iterations, **kw)
    ps = mm.params(stacked)
    post = mm.predict(model, stacked, y)
    env.shape_is('posterior', post, tuple(lead) + (K, N))
    for li in np.ndindex(*lead):
        one = mm.fit(model, y[li], init[li], iterations=iterations, **kw)
        po = mm.params(one)
        for k, v in po.items():
            if not hasattr(v, 'shape'):
                continue
            if tuple(np.shape(ps[k])) != tuple(lead) + tuple(np.shape(v)):
                env._record_plain('param_%s:stacked_shape' % k, False, detail='%s vs %s + %s' % (np.shape(ps[k]), lead, np.shape(v)))
                continue
            env.eq('param_%s%s' % (k, list(li)), ps[k][li], v)
        env.eq('posterior%s' % list(li), post[li], mm.predict(model, one, y[li]))


def cases(tier):
    cs = []
    for name in ['gaussian_full', 'gaussian_diagonal', 'gaussian_spherical', 'complex_gaussian', 'vmf', 'watson', 'cacg']:
        cs.append(Case('dist/%s_lead2' % name, h_dist, dict(name=name, lead=(2,), N=3, D=2), bounds='leading (2,), N=3 D=2, with saliency',
                       lazy=True, timeout_ms=60000, allow=('ValueError',), cosim=1))
        cs.append(Case('dist/%s_lead12' % name, h_dist, dict(name=name, lead=(1, 2), N=2, D=2, saliency=False), bounds='leading (1,2), N=2 D=2',
                       lazy=True, timeout_ms=60000, allow=('ValueError',), cosim=1))
        cs.append(Case('dist/%s_lead21' % name, h_dist, dict(name=name, lead=(2, 1), N=2, D=2, saliency=False), bounds='leading (2,1), N=2 D=2',
                       lazy=True, timeout_ms=60000, allow=('ValueError',), cosim=1))
    for norm in ['trace', False]:
        cs.append(Case('dist/cacg_norm_%s' % norm, h_dist, dict(name='cacg', lead=(2,), N=2, D=2, fit_kw=dict(covariance_norm=norm, eigenvalue_floor=0.5)),
                       bounds='leading (2,), N=2 D=2, covariance_norm=%s, eigenvalue_floor=0.5 (floor active for eigenvalue ratios < 0.5)' % norm,
                       lazy=True, timeout_ms=60000, cosim=1))
    for model in ['cacgmm', 'cwmm', 'gmm_full', 'gmm_diagonal', 'gmm_spherical', 'vmfmm']:
        cs.append(Case('mixture/%s_lead2' % model, h_mixture, dict(model=model, lead=(2,), K=2, N=2, D=2, iterations=2),
                       bounds='leading (2,), K=2 N=2 D=2 iterations=2', lazy=True, timeout_ms=60000, allow=('ValueError',), cosim=1))
    cs.append(Case('mixture/cacgmm_lead12', h_mixture, dict(model='cacgmm', lead=(1, 2), K=2, N=2, D=2, iterations=1),
                   bounds='leading (1,2)', lazy=True, timeout_ms=60000, cosim=1))
    cs.append(Case('mixture/cacgmm_singleton_init', h_mixture, dict(model='cacgmm', lead=(2,), K=2, N=2, D=2, iterations=2, singleton_init=True),
                   bounds='initial affiliation (1,K,N) vs repeated (2,K,N)', lazy=True, timeout_ms=60000, cosim=1))
    return cs
