"""C15  Oracle alignment is optimal and undoes any per-frequency permutation."""
import itertools
import numpy as np
from symnp.runner import Case

OUTSIDE = ('K > 3 (4 thorough) for optimality; inversion: K <= 2 quick (3 thorough), T <= 2, one bin per query (bins are '
           'independent), references with pairwise distinct rows separated by >= 1e-2; int8/overflowing score sums')


def h_optimal(env, K=3, lead=()):
    """'optimal' attains the maximum total score over all permutations and is never below greedy"""
    from pb_bss.permutation_alignment import _mapping_from_score_matrix
    S = env.real('s', tuple(lead) + (K, K), lo=-5, hi=5)
    env.readonly(S)
    m_opt = np.asarray(_mapping_from_score_matrix(S, algorithm='optimal'))
    for f in (np.ndindex(*lead) if lead else [()]):
        col = [int(x) for x in m_opt[(slice(None),) + tuple(f)]]
        env._record_plain('optimal_is_permutation%s' % list(f), sorted(col) == list(range(K)), detail=str(col))
        if sorted(col) != list(range(K)):
            continue

        def total(p):
            t = 0.0
            for k in range(K):
                t = t + env.el(S, tuple(f) + (k, p[k]))
            return t
        best = total(col)
        for p in itertools.permutations(range(K)):
            # every permutation, in particular the greedy result (a permutation by C14)
            env.le('optimal_ge_every_permutation%s%s' % (list(f), list(p)), total(p), best)


def h_invert(env, metric='cos', algorithm='optimal', K=2, T=2, F=1, flat=False):
    """aligner(perm(ref), ref) == ref for every per-frequency permutation, reference rows pairwise distinct"""
    from pb_bss import permutation_alignment as pa
    ref = env.real('r', (K, F, T), lo=0.05, hi=3)
    # pairwise distinct rows per bin: for cos the *normalised* rows must differ -> require non-parallel rows
    for f in range(F):
        for a, b in itertools.combinations(range(K), 2):
            if metric == 'cos':
                if T != 2:
                    raise NotImplementedError
                cross = env.el(ref, (a, f, 0)) * env.el(ref, (b, f, 1)) - env.el(ref, (a, f, 1)) * env.el(ref, (b, f, 0))
                env.assume((cross >= 0.05) | (cross <= -0.05), 'reference rows pairwise non-parallel (|cross product| >= 0.05)')
            else:
                d0 = env.el(ref, (a, f, 0)) - env.el(ref, (b, f, 0))
                env.assume((d0 >= 0.05) | (d0 <= -0.05), 'reference rows pairwise distinct (first entries differ by >= 0.05)')
    al = pa.OraclePermutationAlignment(similarity_metric=metric, algorithm=algorithm)
    perms = list(itertools.permutations(range(K)))
    for combo in itertools.product(perms, repeat=F):
        mapping = np.array(combo, dtype=np.int64).T
        permuted = pa.apply_mapping(ref, mapping)
        if flat:
            got_map = np.asarray(al.calculate_mapping(permuted.reshape(K, F * T), ref.reshape(K, F * T)))
            env._record_plain('global_mapping_inverts%s' % (combo,), [int(x) for x in got_map] == [int(x) for x in np.argsort(mapping[:, 0])],
                              detail='%s vs %s' % (got_map, np.argsort(mapping[:, 0])))
        else:
            out = al(permuted, ref)
            env.eq('restores_reference%s' % (combo,), out, ref)


def h_score_identity(env, metric='euclidean', K=3, F=1, T=2, flat=False):
    """L1: the score matrix of a permuted reference is the column-permuted self-similarity matrix:
    score(perm_sigma(ref), ref)[.., k, j] == score(ref, ref)[.., k, sigma(j)]"""
    from pb_bss import permutation_alignment as pa
    ref = env.real('r', (K, F, T), lo=-3, hi=3)
    al = pa.OraclePermutationAlignment(similarity_metric=metric)
    perms = list(itertools.permutations(range(K)))
    rr = ref.reshape(K, F * T) if flat else ref
    G = al.get_score_matrix(rr, rr)
    for combo in itertools.product(perms, repeat=F):
        if flat and len(set(combo)) > 1:
            continue
        mapping = np.array(combo, dtype=np.int64).T
        permuted = pa.apply_mapping(ref, mapping)
        pp = permuted.reshape(K, F * T) if flat else permuted
        S = al.get_score_matrix(pp, rr)
        env.shape_is('score%s' % (combo,), S, (K, K) if flat else (F, K, K))
        if tuple(S.shape) != ((K, K) if flat else (F, K, K)):
            continue
        for f in range(1 if flat else F):
            for k in range(K):
                for j in range(K):
                    i1 = (k, j) if flat else (f, k, j)
                    i2 = (k, int(mapping[j, f])) if flat else (f, k, int(mapping[j, f]))
                    env.eq('score_is_permuted_self_similarity%s[%d,%d,%d]' % (combo, f, k, j), S[i1], G[i2])


def _hyp(env, G, K, algorithm):
    """dominance of the self-similarity matrix that makes the assignment unique (Cauchy-Schwarz /
    positivity of distances for pairwise distinct rows)"""
    if algorithm == 'greedy':
        for i in range(K):
            for j in range(K):
                if i != j:
                    gi, gj, gij = env.el(G, (i, i)), env.el(G, (j, j)), env.el(G, (i, j))
                    yield (gij < gi) | (gij < gj)
    else:
        for p in itertools.permutations(range(K)):
            if list(p) != list(range(K)):
                a, b = 0.0, 0.0
                for k in range(K):
                    a = a + env.el(G, (k, p[k]))
                    b = b + env.el(G, (k, k))
                yield a < b


def h_mapping_abstract(env, K=3, algorithm='optimal', sigmas=None):
    """L2: for an abstract self-similarity matrix with the dominance hypothesis, the assignment computed
    from its column-permuted copy inverts the permutation (all K! permutations)"""
    from pb_bss.permutation_alignment import _mapping_from_score_matrix
    G = env.real('g', (K, K), lo=-5, hi=5)
    for h in _hyp(env, G, K, algorithm):
        env.assume(h, 'self-similarity matrix satisfies the dominance hypothesis (lemma L3)')
    for sigma in (sigmas or itertools.permutations(range(K))):
        S = G[:, list(sigma)]
        m = [int(x) for x in np.asarray(_mapping_from_score_matrix(S, algorithm=algorithm))]
        ok = sorted(m) == list(range(K)) and all(sigma[m[k]] == k for k in range(K))
        env._record_plain('mapping_inverts%s' % (list(sigma),), ok, detail=str(m))


def h_hypothesis(env, metric='multiply', K=2, T=2):
    """L3: the dominance hypotheses hold for the self-similarity matrix of pairwise distinct rows"""
    from pb_bss import permutation_alignment as pa
    ref = env.real('r', (K, T), lo=0.05, hi=3)
    for a, b in itertools.combinations(range(K), 2):
        if metric == 'cos':
            cross = env.el(ref, (a, 0)) * env.el(ref, (b, 1)) - env.el(ref, (a, 1)) * env.el(ref, (b, 0))
            env.assume((cross >= 0.05) | (cross <= -0.05), 'reference rows pairwise non-parallel (|cross product| >= 0.05)')
        else:
            d0 = env.el(ref, (a, 0)) - env.el(ref, (b, 0))
            env.assume((d0 >= 0.05) | (d0 <= -0.05), 'reference rows pairwise distinct (first entries differ by >= 0.05)')
    al = pa.OraclePermutationAlignment(similarity_metric=metric)
    G = al.get_score_matrix(ref, ref)
    for alg in ('greedy', 'optimal'):
        for i, h in enumerate(_hyp(env, G, K, alg)):
            env.true('dominance_%s_%d' % (alg, i), h)


# properties whose thorough extras were run end-to-end on the unchanged tree (exit 0); others: thorough == quick
from harness.thorough_verified import THOROUGH_VERIFIED


def cases(tier):
    import os
    q = tier == 'quick' or 'C15' not in THOROUGH_VERIFIED and os.environ.get('VERIF_TRY_EXTRAS') != '1'
    cs = []
    for K in ([2, 3] if q else [2, 3, 4]):
        cs.append(Case('optimal/K%d' % K, h_optimal, dict(K=K), bounds='all real %dx%d score matrices' % (K, K),
                       max_paths=200000, budget_s=3000))
    cs.append(Case('optimal/K2_lead2', h_optimal, dict(K=2, lead=(2,)), bounds='2 bins of real 2x2 matrices'))
    for metric in ['cos', 'euclidean', 'multiply']:
        for alg in ['greedy', 'optimal']:
            cs.append(Case('invert/%s_%s_K2' % (metric, alg), h_invert, dict(metric=metric, algorithm=alg, K=2, T=2, F=1),
                           bounds='K=2 T=2 one bin, both permutations, symbolic reference', lazy=True, timeout_ms=60000))
    cs.append(Case('invert/multiply_optimal_K2_F3', h_invert, dict(metric='multiply', algorithm='optimal', K=2, T=1, F=3),
                   bounds='K=2 T=1 F=3, all 8 permutation fields', lazy=True))
    for metric in ['cos', 'euclidean', 'multiply']:
        cs.append(Case('score_identity/%s_K3' % metric, h_score_identity, dict(metric=metric, K=3, F=1, T=2),
                       bounds='K=3 F=1 T=2, all 6 permutations'))
        cs.append(Case('score_identity/%s_K3_flat' % metric, h_score_identity, dict(metric=metric, K=3, F=1, T=2, flat=True),
                       bounds='K=3, flattened (K, F*T) input, all 6 global permutations'))
        cs.append(Case('score_identity/%s_K2_F2' % metric, h_score_identity, dict(metric=metric, K=2, F=2, T=2),
                       bounds='K=2 F=2 T=2, all 4 permutation fields'))
        cs.append(Case('hypothesis/%s_K2' % metric, h_hypothesis, dict(metric=metric, K=2, T=2), bounds='K=2 T=2', timeout_ms=120000))
    for alg in ['greedy', 'optimal']:
        for sigma in itertools.permutations(range(3)):
            cs.append(Case('mapping_abstract/%s_K3_%s' % (alg, ''.join(map(str, sigma))), h_mapping_abstract,
                           dict(K=3, algorithm=alg, sigmas=[sigma]),
                           bounds='abstract 3x3 self-similarity matrix, permutation %s' % (sigma,), max_paths=100000, budget_s=1500))
    if not q:
        cs.append(Case('mapping_abstract/optimal_K4', h_mapping_abstract, dict(K=4, algorithm='optimal'),
                       bounds='abstract 4x4 self-similarity matrix, all 24 permutations', max_paths=1000000, budget_s=6000))
        cs.append(Case('invert/flat_multiply_optimal_K3', h_invert, dict(metric='multiply', algorithm='optimal', K=3, T=2, F=1, flat=True),
                       bounds='K=3, flattened input', timeout_ms=60000, max_paths=100000, budget_s=3000))
        cs.append(Case('invert/multiply_optimal_K3', h_invert, dict(metric='multiply', algorithm='optimal', K=3, T=2, F=1),
                       bounds='K=3 T=2', lazy=True, timeout_ms=120000, max_paths=100000, budget_s=3000))
    return cs
