"""C07  log_pdf is the logarithm of the named, normalised density (algebraic form, exact constants)."""
import math
import itertools
import numpy as np
from symnp.runner import Case

OUTSIDE = ('"integrates to one" (an integral over the sphere is not an SMT query); values of Bessel / 1F1 functions (uninterpreted: '
           'only the order/arguments passed and the elementary factors are decided); complex Bingham (normaliser with numeric '
           'duplicate-spreading); D > 3; condition numbers')


def _lower(env, name, lead, D, lo_diag=0.3):
    L = env.real(name, tuple(lead) + (D, D), lo=-2, hi=2)
    if env.sym:
        from symnp.core import SR
        from symnp.array import SymArray
        a = L._a.copy()
        for idx in np.ndindex(*a.shape):
            i, j = idx[-2], idx[-1]
            if j > i:
                a[idx] = SR(0)
            elif i == j:
                env.assume(a[idx] >= lo_diag, 'covariance = L L^T with diag(L) in [%g, 2], |L_ij| <= 2' % lo_diag)
        return SymArray(a, L.dtype)
    L = np.tril(L)
    for idx in np.ndindex(*L.shape[:-2]):
        for i in range(D):
            v = abs(L[idx + (i, i)])
            L[idx + (i, i)] = v if v >= lo_diag else v + lo_diag
    return L


def h_gaussian(env, ctype='full', lead=(2,), N=2, D=2):
    from pb_bss.distribution import Gaussian, DiagonalGaussian, SphericalGaussian
    mean = env.real('mu', tuple(lead) + (D,), lo=-2, hi=2)
    y = env.real('y', tuple(lead) + (N, D), lo=-3, hi=3)
    if ctype == 'full':
        L = _lower(env, 'L', lead, D)
        cov = L @ np.swapaxes(L, -1, -2)
        g = Gaussian(mean=mean, covariance=cov)
    elif ctype == 'diagonal':
        cov = env.real('c', tuple(lead) + (D,), lo=0.1, hi=4)
        g = DiagonalGaussian(mean=mean, covariance=cov)
    else:
        cov = env.real('c', tuple(lead), lo=0.1, hi=4)
        g = SphericalGaussian(mean=mean, covariance=cov)
    lp = g.log_pdf(y)
    env.shape_is('log_pdf', lp, tuple(lead) + (N,))
    const = -D / 2 * math.log(2 * math.pi)
    for li in np.ndindex(*lead):
        for n in range(N):
            d = [env.el(y, li + (n, i)) - env.el(mean, li + (i,)) for i in range(D)]
            if ctype == 'full':
                if env.sym:
                    P = g.precision_cholesky
                    # contract of the sklearn helper: precision = P P^T, log det precision^(1/2) = sum log P_ii
                    quad = 0.0
                    for i in range(D):
                        for j in range(D):
                            pp = 0.0
                            for k in range(D):
                                pp = env.el(P, li + (i, k)) * env.el(P, li + (j, k)) + pp
                            quad = d[i] * pp * d[j] + quad
                    logdet = 0.0
                    for i in range(D):
                        logdet = env.log(env.el(P, li + (i, i))) + logdet
                    want = const + logdet - 0.5 * quad
                else:
                    C = np.asarray(cov)[li]
                    dv = np.array(d)
                    want = const - 0.5 * np.log(np.linalg.det(C)) - 0.5 * dv @ np.linalg.solve(C, dv)
            elif ctype == 'diagonal':
                quad = 0.0; logdet = 0.0
                for i in range(D):
                    c = env.el(cov, li + (i,))
                    quad = d[i] * d[i] / c + quad
                    logdet = env.log(1 / env.sqrt(c)) + logdet
                want = const + logdet - 0.5 * quad
            else:
                c = env.el(cov, li)
                quad = 0.0
                for i in range(D):
                    quad = d[i] * d[i] / c + quad
                want = const + D * env.log(1 / env.sqrt(c)) - 0.5 * quad
            env.eq('density_formula%s[%d]' % (list(li), n), env.el(lp, li + (n,)), want)


def h_complex_gaussian(env, lead=(2,), N=2, D=2):
    from pb_bss.distribution import ComplexCircularSymmetricGaussian
    from harness.bf_common import pd_matrix
    env.assume_divisors_nonzero('det C != 0 (C positive definite)')
    C, L = pd_matrix(env, 'L', lead, D)
    y = env.cplx('y', tuple(lead) + (N, D), lo=-3, hi=3)
    m = ComplexCircularSymmetricGaussian(covariance=C)
    lp = m.log_pdf(y)
    env.shape_is('log_pdf', lp, tuple(lead) + (N,))
    for li in np.ndindex(*lead):
        if env.sym:
            from symnp.stubs import _det, _inverse_of
            det = _det(C._a[li])
            logdet = env.log(abs(det))
            Ci = _inverse_of(C._a[li], True)
        else:
            Cm = np.asarray(C)[li]
            logdet = math.log(abs(np.linalg.det(Cm)))
            Ci = np.linalg.inv(Cm)
        for n in range(N):
            quad = 0.0
            for i in range(D):
                for j in range(D):
                    quad = env.conj(env.el(y, li + (n, i))) * Ci[i, j] * env.el(y, li + (n, j)) + quad
            want = -D * math.log(math.pi) - logdet - env.re(quad)
            env.eq('density_formula%s[%d]' % (list(li), n), env.el(lp, li + (n,)), want)


def h_cacg(env, lead=(2,), N=2, D=2):
    from pb_bss.distribution import ComplexAngularCentralGaussian
    V = env.cplx('V', tuple(lead) + (D, D), lo=-1, hi=1)
    w = env.real('w', tuple(lead) + (D,), lo=1e-3, hi=1)
    z = env.cplx('z', tuple(lead) + (D, N), lo=-1, hi=1)
    m = ComplexAngularCentralGaussian(covariance_eigenvectors=V, covariance_eigenvalues=w)
    lp, qf = m._log_pdf(z)
    env.shape_is('log_pdf', lp, tuple(lead) + (N,))
    for li in np.ndindex(*lead):
        logdet = 0.0
        for i in range(D):
            logdet = env.log(env.el(w, li + (i,))) + logdet
        for n in range(N):
            q = 0.0
            for i in range(D):
                ip = 0.0
                for d in range(D):
                    ip = env.conj(env.el(V, li + (d, i))) * env.el(z, li + (d, n)) + ip      # v_i^H z
                q = env.abs2(ip) / env.el(w, li + (i,)) + q
            env.assume_path(q >= 1e-200, 'quadratic form z^H B^-1 z >= 1e-200 (flooring at tiny inactive)')
            env.eq('quadratic_form%s[%d]' % (list(li), n), env.el(qf, li + (n,)), q)
            env.eq('density_formula%s[%d]' % (list(li), n), env.el(lp, li + (n,)), -D * env.log(env.el(qf, li + (n,))) - logdet)


def _ive(env, order, x):
    if env.sym:
        from symnp.core import uf_apply
        return uf_apply('ive_%s' % (order,), x)
    import scipy.special
    return scipy.special.ive(order, x)


def _hyp(env, a, b, x):
    if env.sym:
        from symnp.core import uf_apply
        return uf_apply('hyp1f1_%s_%s' % (a, b), x)
    import scipy.special
    return scipy.special.hyp1f1(a, b, x)


def h_vmf(env, lead=(2,), N=2, D=3):
    from pb_bss.distribution import VonMisesFisher
    mu = env.real('mu', tuple(lead) + (D,), lo=-1, hi=1)
    kappa = env.real('k', tuple(lead), lo=1e-3, hi=500)
    y = env.real('y', tuple(lead) + (N, D), lo=-2, hi=2)
    m = VonMisesFisher(mean=mu, concentration=kappa)
    lp = m.log_pdf(y)
    env.shape_is('log_pdf', lp, tuple(lead) + (N,))
    for li in np.ndindex(*lead):
        k = env.el(kappa, li)
        log_norm = (D / 2) * math.log(2 * math.pi) + env.log(_ive(env, D / 2 - 1, k)) + (abs(k) - (D / 2 - 1) * env.log(k))
        for n in range(N):
            nrm2 = 0.0
            for d in range(D):
                nrm2 = env.el(y, li + (n, d)) * env.el(y, li + (n, d)) + nrm2
            env.assume(nrm2 >= 0.05, 'observation norm^2 >= 0.05')
            nrm = env.sqrt(nrm2)
            ip = 0.0
            for d in range(D):
                ip = env.el(y, li + (n, d)) / nrm * env.el(mu, li + (d,)) + ip
            env.eq('density_formula%s[%d]' % (list(li), n), env.el(lp, li + (n,)), k * ip - log_norm)


def h_watson(env, lead=(2,), N=2, D=2):
    from pb_bss.distribution import ComplexWatson
    mode = env.cplx('w', tuple(lead) + (D,), lo=-1, hi=1)
    kappa = env.real('k', tuple(lead), lo=1e-3, hi=500)
    z = env.cplx('z', tuple(lead) + (N, D), lo=-1, hi=1)
    m = ComplexWatson(mode=mode, concentration=kappa)
    lp = m.log_pdf(z)
    env.shape_is('log_pdf', lp, tuple(lead) + (N,))
    for li in np.ndindex(*lead):
        k = env.el(kappa, li)
        log_norm = env.log(_hyp(env, 1, D, k) * (2 * math.pi ** D / math.factorial(D - 1)))
        for n in range(N):
            ip = 0.0
            for d in range(D):
                ip = env.el(z, li + (n, d)) * env.conj(env.el(mode, li + (d,))) + ip
            env.eq('density_formula%s[%d]' % (list(li), n), env.el(lp, li + (n,)), k * env.abs2(ip) - log_norm)


def cases(tier):
    cs = []
    for ct in ['full', 'diagonal', 'spherical']:
        cs.append(Case('gaussian/%s' % ct, h_gaussian, dict(ctype=ct, lead=(2,), N=2, D=2), bounds='leading (2,), N=2 D=2, non-diagonal covariance', timeout_ms=60000))
        cs.append(Case('gaussian/%s_lead12' % ct, h_gaussian, dict(ctype=ct, lead=(1, 2), N=1, D=2), bounds='leading (1,2), N=1 D=2', timeout_ms=60000))
    cs.append(Case('gaussian/full_D3', h_gaussian, dict(ctype='full', lead=(1,), N=1, D=3), bounds='D=3', timeout_ms=60000))
    cs.append(Case('complex_gaussian', h_complex_gaussian, dict(lead=(2,), N=2, D=2), bounds='leading (2,), N=2 D=2', timeout_ms=60000))
    cs.append(Case('cacg', h_cacg, dict(lead=(2,), N=1, D=2), bounds='leading (2,), N=1 D=2, arbitrary eigenvectors, eigenvalues in [1e-3, 1]', timeout_ms=60000))
    for D in [2, 3, 4]:
        cs.append(Case('vmf/D%d' % D, h_vmf, dict(lead=(2,), N=1, D=D), bounds='leading (2,), N=1 D=%d, concentration in [1e-3, 500]' % D, timeout_ms=60000))
    for D in [2, 3]:
        cs.append(Case('watson/D%d' % D, h_watson, dict(lead=(2,), N=2, D=D), bounds='leading (2,), N=2 D=%d' % D, timeout_ms=60000))
    return cs
