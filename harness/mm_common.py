"""shared helpers for the mixture-model harnesses (C01-H2, C04, C05, C06, C08, C09, C20)"""
import itertools
import numpy as np

MODELS = ['cacgmm', 'cwmm', 'gmm_full', 'gmm_diagonal', 'gmm_spherical', 'vmfmm', 'gcacgmm', 'vmfcacgmm']


def is_complex_model(m):
    return m in ('cacgmm', 'cwmm', 'cbmm')


def observations(env, model, lead, N, D, name='y', lo=-2, hi=2):
    if is_complex_model(model):
        return env.cplx(name, tuple(lead) + (N, D), lo=lo, hi=hi)
    return env.real(name, tuple(lead) + (N, D), lo=lo, hi=hi)


def nonzero_frames(env, y, lead, N, floor=0.05):
    """every frame has |y_n|^2 >= floor (zero frames are exercised separately)"""
    for li in np.ndindex(*(tuple(lead) + (N,))):
        s = 0.0
        for d in range(y.shape[-1]):
            s = env.abs2(env.el(y, li + (d,))) + s
        env.assume(s >= floor, 'every observation frame has squared norm >= %g' % floor)


def affiliation(env, lead, K, N, name='g', lo=0.05, hi=1.0, normalized=False):
    a = env.real(name, tuple(lead) + (K, N), lo=lo, hi=hi)
    return a


def fit(model, y, init, iterations=1, emb=None, **kw):
    """call the real trainer"""
    from pb_bss import distribution as d
    if model == 'cacgmm':
        return d.CACGMMTrainer().fit(y, initialization=init, iterations=iterations, **kw)
    if model == 'cwmm':
        return d.CWMMTrainer().fit(y, initialization=init, iterations=iterations, **kw)
    if model == 'cbmm':
        return d.CBMMTrainer().fit(y, initialization=init, iterations=iterations, **kw)
    if model.startswith('gmm_'):
        return d.GMMTrainer().fit(y, initialization=init, iterations=iterations, covariance_type=model[4:], **kw)
    if model == 'vmfmm':
        return d.VMFMMTrainer().fit(y, initialization=init, iterations=iterations, **kw)
    if model == 'gcacgmm':
        return d.GCACGMMTrainer().fit(y, emb, initialization=init, iterations=iterations, **kw)
    if model == 'vmfcacgmm':
        return d.VMFCACGMMTrainer().fit(y, emb, initialization=init, iterations=iterations, **kw)
    raise ValueError(model)


def predict(model, m, y, emb=None):
    if model in ('gcacgmm', 'vmfcacgmm'):
        return m.predict(y, emb)
    return m.predict(y)


def params(m, prefix=''):
    """flatten a (nested) model dataclass into {name: array}"""
    out = {}
    for k in m.__dataclass_fields__.keys():
        v = getattr(m, k)
        if hasattr(v, '__dataclass_fields__'):
            out.update(params(v, prefix + k + '.'))
        elif v is None or isinstance(v, (str, tuple, float, int)) and not hasattr(v, 'shape'):
            out[prefix + k] = v
        else:
            out[prefix + k] = v
    return out


# which axis of each parameter is the class axis (counted from the front, after `nlead` leading axes)
def class_axis(model, pname, nlead):
    if pname.endswith('weight'):
        return nlead        # (..., K, 1)
    return nlead            # all component parameters: (..., K, ...)


def take_class(arr, axis, perm):
    idx = [slice(None)] * arr.ndim
    idx[axis] = list(perm)
    return arr[tuple(idx)]
