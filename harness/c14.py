"""C14  Permutation alignment only reorders classes."""
import itertools
import numpy as np
from symnp.runner import Case

OUTSIDE = ('int score matrices at +-2^63 (iinfo.min sentinel); K > 3 (4 thorough) for score matrices, K > 2 (3) for the '
           'aligners; F > 3; sums overflowing the float range')


def _is_perm(col, K):
    return sorted(int(x) for x in col) == list(range(K))


def h_score(env, K=3, algorithm='greedy', lead=(), integer=False):
    from pb_bss.permutation_alignment import _mapping_from_score_matrix
    if integer:
        S = env.real('s', tuple(lead) + (K, K), lo=0, hi=2, integer=True)
    else:
        S = env.real('s', tuple(lead) + (K, K), lo=-5, hi=5)
    S0 = S.copy()
    env.readonly(S)
    mapping = _mapping_from_score_matrix(S, algorithm=algorithm)
    env.eq('score_matrix_untouched', S, S0)
    env.shape_is('mapping', mapping, (K,) + tuple(lead))
    mapping = np.asarray(mapping)
    for f in (np.ndindex(*lead) if lead else [()]):
        col = mapping[(slice(None),) + tuple(f)]
        env._record_plain('is_permutation%s' % list(f), _is_perm(col, K), detail=str(col))


def h_apply(env, K=3, F=2, T=2):
    """apply_mapping returns exactly the input rows in the mapped order, for every mapping"""
    from pb_bss.permutation_alignment import apply_mapping, _PermutationAlignment
    mask = env.real('m', (K, F, T), lo=-3, hi=3)
    env.readonly(mask)
    perms = list(itertools.permutations(range(K)))
    for combo in itertools.product(perms, repeat=F):
        mapping = np.array(combo, dtype=np.int64).T        # (K, F)
        for name, fn in (('fn', apply_mapping), ('method', _PermutationAlignment.apply_mapping)):
            out = fn(mask, mapping)
            env.shape_is('%s%s' % (name, combo), out, (K, F, T))
            for k in range(K):
                for f in range(F):
                    env.eq('%s_rows%s[%d,%d]' % (name, combo, k, f), out[k, f], mask[int(mapping[k, f]), f])


def _check_aligned(env, mask0, mapping, aligned, K, F, tag=''):
    mapping = np.asarray(mapping)
    env.shape_is('mapping' + tag, mapping, (K, F))
    ok = mapping.shape == (K, F)
    if not ok:
        return
    for f in range(F):
        env._record_plain('is_permutation%s[%d]' % (tag, f), _is_perm(mapping[:, f], K), detail=str(mapping[:, f]))
    if aligned is not None:
        env.shape_is('aligned' + tag, aligned, tuple(mask0.shape))
        for k in range(K):
            for f in range(F):
                mk = int(mapping[k, f])
                if 0 <= mk < K:
                    env.eq('aligned_rows%s[%d,%d]' % (tag, k, f), aligned[k, f], mask0[mk, f])


def h_aligner(env, kind='greedy', metric='cos', algorithm='optimal', K=2, F=3, T=2, nonneg=True, dhtv=None, readonly=True):
    from pb_bss import permutation_alignment as pa
    mask = env.real('m', (K, F, T), lo=0 if nonneg else -3, hi=3)
    mask0 = mask.copy()
    if readonly:
        env.readonly(mask)
    if kind == 'greedy':
        al = pa.GreedyPermutationAlignment(similarity_metric=metric, algorithm=algorithm)
        mapping = al.calculate_mapping(mask)
        aligned = al(mask)
    elif kind == 'oracle':
        ref = env.real('r', (K, F, T), lo=0 if nonneg else -3, hi=3)
        ref0 = ref.copy()
        al = pa.OraclePermutationAlignment(similarity_metric=metric, algorithm=algorithm)
        mapping = al.calculate_mapping(mask, ref)
        aligned = al(mask, ref)
        env.eq('reference_untouched', ref, ref0)
    else:
        al = pa.DHTVPermutationAlignment(similarity_metric=metric, algorithm=algorithm, **dhtv)
        mapping = al.calculate_mapping(mask)
        aligned = al(mask)
    env.eq('mask_untouched', mask, mask0)
    _check_aligned(env, mask0, mapping, aligned, K, F)


def h_inline(env, K=2, F=3, T=2, with_qf=True):
    """alignment applied inside EM: posteriors and quadratic forms are permuted by the same mapping"""
    from pb_bss import permutation_alignment as pa
    from pb_bss.distribution.mixture_model_utils import apply_inline_permutation_alignment
    aff = env.real('a', (F, K, T), lo=0, hi=1)
    qf = env.real('q', (F, K, T), lo=0.1, hi=5) if with_qf else None
    aff0, qf0 = aff.copy(), (None if qf is None else qf.copy())
    al = pa.GreedyPermutationAlignment(similarity_metric='multiply')
    rec = {}
    orig = al.calculate_mapping

    def recording(m, *a, **k):
        r = orig(m, *a, **k)
        rec['mapping'] = np.array(r, copy=True)
        return r
    al.calculate_mapping = recording
    res = apply_inline_permutation_alignment(aff, quadratic_form=qf, weight_constant_axis=(-3,), aligner=al)
    if with_qf:
        aff_out, qf_out = res
    else:
        aff_out, qf_out = res, None
    mapping = rec['mapping']
    env.shape_is('affiliation', aff_out, (F, K, T))
    for f in range(F):
        env._record_plain('is_permutation[%d]' % f, _is_perm(mapping[:, f], K), detail=str(mapping[:, f]))
        for k in range(K):
            mk = int(mapping[k, f])
            env.eq('affiliation_rows[%d,%d]' % (f, k), aff_out[f, k], aff0[f, mk])
            if with_qf:
                env.eq('quadratic_form_rows[%d,%d]' % (f, k), qf_out[f, k], qf0[f, mk])
    env.eq('affiliation_input_untouched', aff, aff0)


def h_integration(env, K=3, T=1, F=1):
    """built-in spatial/spectral alignment of the integration models: result is the posterior of the
    chosen permutation (a permutation of the spatial classes), never worse than the identity under
    the criterion Q(p) = sum_kt gamma_p log_pdf_p"""
    from pb_bss.distribution import mixture_model_utils as mmu
    spatial = env.real('sp', (F, K, T), lo=-20, hi=20)
    spectral = env.real('sc', (F, K, T), lo=-20, hi=20)
    weight = env.real('w', (F, K, 1), lo=1e-3, hi=1)
    perms = list(itertools.permutations(range(K)))

    def Q(f, p, prove=False):
        tot = 0.0
        for t in range(T):
            lp = [env.el(spatial, (f, p[k], t)) + env.el(spectral, (f, k, t)) for k in range(K)]
            if env.sym:
                mx = np.amax(_vec(env, lp))
                mx = mx._a[()]
            else:
                mx = max(lp)
            e = [env.exp(x - mx) for x in lp]
            s = e[0]
            for x in e[1:]:
                s = s + x
            if prove:
                # the maximal class contributes exp(0) = 1: the normaliser is >= 1 (guard `tiny` irrelevant)
                env.prove_and_use('normaliser_ge_1%s[%d,%d]' % (list(p), f, t), s >= 1.0)
            for k in range(K):
                tot = tot + e[k] / s * lp[k]
        return tot

    Qs = {(f, p): Q(f, p, prove=True) for f in range(F) for p in perms}
    rec = []
    orig = mmu.log_pdf_to_affiliation

    def recording(w, log_pdf, **kw):
        rec.append(log_pdf.copy() if hasattr(log_pdf, 'copy') else np.array(log_pdf))
        return orig(w, log_pdf, **kw)
    mmu.log_pdf_to_affiliation = recording
    try:
        aff = mmu.log_pdf_to_affiliation_for_integration_models_with_inline_pa(
            weight, spatial, spectral, source_activity_mask=None, affiliation_eps=0.)
    finally:
        mmu.log_pdf_to_affiliation = orig
    env.shape_is('affiliation', aff, (F, K, T))
    env._record_plain('one_posterior_call_per_bin', len(rec) == F, detail=str(len(rec)))

    for f in range(min(F, len(rec))):
        used = rec[f]
        chosen = None
        for p in perms:
            if _same(env, used, [[env.el(spatial, (f, p[k], t)) + env.el(spectral, (f, k, t)) for t in range(T)] for k in range(K)]):
                chosen = p
                break
        env._record_plain('posterior_of_a_class_permutation[%d]' % f, chosen is not None)
        if chosen is None:
            continue
        env.le('chosen_not_worse_than_identity[%d]' % f, Qs[(f, tuple(range(K)))], Qs[(f, chosen)])
        for t in range(T):
            s = 0.0
            for k in range(K):
                s = s + env.el(aff, (f, k, t))
            env.eq('sum1[%d,%d]' % (f, t), s, 1.0)


def _vec(env, xs):
    from symnp.array import lift
    return lift(list(xs))


def _same(env, arr, rows):
    K, T = len(rows), len(rows[0])
    if tuple(arr.shape) != (K, T):
        return False
    if env.sym:
        import z3
        from symnp.core import SR
        for k in range(K):
            for t in range(T):
                d = z3.simplify(SR(arr._a[k, t]).z - SR(rows[k][t]).z, som=True, sort_sums=True)
                if not d.eq(z3.RealVal(0)):
                    return False
        return True
    return bool(np.allclose(np.asarray(arr), np.array(rows, dtype=float), rtol=0, atol=1e-12))


# properties whose thorough extras were run end-to-end on the unchanged tree (exit 0); others: thorough == quick
from harness.thorough_verified import THOROUGH_VERIFIED


def cases(tier):
    import os
    q = tier == 'quick' or 'C14' not in THOROUGH_VERIFIED and os.environ.get('VERIF_TRY_EXTRAS') != '1'
    cs = []
    for alg in ['greedy', 'optimal']:
        for K in ([1, 2, 3] if q else [1, 2, 3, 4]):
            if K == 4 and alg == 'greedy':
                continue
            cs.append(Case('score/%s_K%d' % (alg, K), h_score, dict(K=K, algorithm=alg),
                           bounds='all real %dx%d score matrices' % (K, K), max_paths=20000, budget_s=900, lazy=True))
        cs.append(Case('score/%s_int_K3' % alg, h_score, dict(K=3, algorithm=alg, integer=True),
                       bounds='all int64 3x3 score matrices over {0,1,2} (one symbolic exploration)', max_paths=20000, budget_s=900))
        cs.append(Case('score/%s_lead2_K2' % alg, h_score, dict(K=2, algorithm=alg, lead=(2,)), bounds='2 bins of real 2x2 matrices'))
    cs.append(Case('apply/K3_F2', h_apply, dict(K=3, F=2, T=2), bounds='K=3 F=2 T=2, all 36 mappings, symbolic mask'))
    cs.append(Case('apply/K2_F3', h_apply, dict(K=2, F=3, T=1), bounds='K=2 F=3 T=1, all 8 mappings'))
    for metric in ['cos', 'euclidean', 'multiply']:
        cs.append(Case('greedy/%s_K2' % metric, h_aligner, dict(kind='greedy', metric=metric, K=2, F=3, T=2),
                       bounds='K=2 F=3 T=2 non-negative symbolic mask', max_paths=5000, budget_s=900, lazy=True))
        for alg in ['greedy', 'optimal']:
            cs.append(Case('oracle/%s_%s_K2' % (metric, alg), h_aligner, dict(kind='oracle', metric=metric, algorithm=alg, K=2, F=3, T=2),
                           bounds='K=2 F=3 T=2', max_paths=5000, budget_s=900, lazy=True))
    if not q:
        cs.append(Case('greedy/multiply_K3', h_aligner, dict(kind='greedy', metric='multiply', K=3, F=3, T=2),
                       bounds='K=3 F=3 T=2', max_paths=50000, budget_s=3000, lazy=True))
        cs.append(Case('oracle/multiply_optimal_K3', h_aligner, dict(kind='oracle', metric='multiply', algorithm='optimal', K=3, F=1, T=2),
                       bounds='K=3 F=1 T=2', max_paths=50000, budget_s=3000, lazy=True))
    for metric, alg, iters in [('cos', 'optimal', 2), ('multiply', 'greedy', 1), ('euclidean', 'optimal', 2)]:
        cs.append(Case('dhtv/%s_%s_K2' % (metric, alg), h_aligner,
                       dict(kind='dhtv', metric=metric, algorithm=alg, K=2, F=3, T=2,
                            dhtv=dict(stft_size=4, segment_start=0, segment_width=2, segment_shift=1, main_iterations=iters, sub_iterations=1)),
                       bounds='K=2 F=3 T=2, stft_size 4, plan start 0 width 2 shift 1, %d/1 iterations' % iters, max_paths=20000, budget_s=1500, lazy=True))
    cs.append(Case('inline/K2', h_inline, dict(K=2, F=3, T=2), bounds='K=2 F=3 T=2 greedy(multiply) aligner', lazy=True))
    cs.append(Case('inline/K2_noqf', h_inline, dict(K=2, F=3, T=2, with_qf=False), bounds='K=2 F=3 T=2', lazy=True))
    cs.append(Case('integration/K2', h_integration, dict(K=2, T=2, F=2), bounds='K=2 T=2 F=2', timeout_ms=60000))
    cs.append(Case('integration/K3', h_integration, dict(K=3, T=1, F=1), bounds='K=3 T=1 F=1', timeout_ms=60000, max_paths=5000, budget_s=1500))
    return cs
