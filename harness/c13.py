"""C13  Beamforming helpers agree with their primitives and act per leading index."""
import itertools
import numpy as np
from symnp.runner import Case
from harness.bf_common import pd_matrix, herm, noise_psd, concrete_pd

ALIASES = {'step_a_identity': ('consecutive_bins_aligned',)}

OUTSIDE = ('D > 2, F > 3, more than one extra leading axis; singular bins are exercised with concrete noise PSDs (zero / '
           'rank-deficient / regular) and symbolic targets; frequency_dependent distortion weight; cythonised GEV')


def _target(env, name, lead, D):
    Lt = env.cplx(name, tuple(lead) + (D, D), lo=-2, hi=2)
    return Lt @ herm(Lt)


def _compose(name, T, N, ref=0):
    """the composition of primitives spelled by the beamformer name"""
    from pb_bss.extraction import beamformer as bf
    from pb_bss.extraction import beamformer_wrapper as bw
    ban = name.endswith('+ban')
    core = name[:-4] if ban else name
    if core == 'pca':
        w = bf.get_pca_vector(T)
    elif core == 'pca+mvdr':
        w = bf.get_mvdr_vector(bf.get_pca_vector(T), N)
    elif core == 'scaled_gev_atf+mvdr':
        g = bf.get_gev_vector(T, N)
        atf = np.einsum('...dD,...D->...d', N, g)
        w = bf.get_mvdr_vector(atf, N)
    elif core.endswith('mvdr_souden') or core.endswith('wmwf') or core.endswith('gev'):
        parts = core.split('+')
        Tx = T
        if len(parts) == 2:
            if parts[0] == 'rank1_pca':
                a = bf.get_pca_vector(T)
            else:
                a = np.einsum('...dD,...D->...d', N, bf.get_gev_vector(T, N))
            r1 = np.einsum('...d,...D->...dD', a, np.conjugate(a))
            scale = np.trace(T, axis1=-1, axis2=-2) / np.trace(r1, axis1=-1, axis2=-2)
            Tx = scale[..., None, None] * r1
        if parts[-1] == 'mvdr_souden':
            w = bf.get_mvdr_vector_souden(Tx, N, ref_channel=ref)
        elif parts[-1] == 'wmwf':
            w = bf.get_wmwf_vector(Tx, N, reference_channel=ref)
        else:
            w = bf.get_gev_vector(Tx, N)
    elif core.startswith('ch'):
        D = T.shape[-1]
        w = np.zeros(T.shape[:-1])
        w[..., int(core[2:])] = 1
    else:
        raise ValueError(core)
    if ban:
        w = bf.blind_analytic_normalization(w, N)
    return w


NAMES = ['pca', 'pca+mvdr', 'scaled_gev_atf+mvdr', 'mvdr_souden', 'rank1_pca+mvdr_souden', 'rank1_gev+mvdr_souden',
         'gev', 'rank1_pca+gev', 'rank1_gev+gev', 'wmwf', 'rank1_pca+wmwf', 'rank1_gev+wmwf', 'ch0', 'ch1']


def h_wrapper(env, name='mvdr_souden', F=2, D=2, ref=0):
    from pb_bss.extraction.beamformer_wrapper import get_bf_vector
    env.assume_divisors_nonzero('quotients are defined (traces / quadratic forms of positive definite matrices are non-zero)')
    T = _target(env, 'Lt', (F,), D)
    N = noise_psd(env, 'conc', F, D)
    kw = {}
    core = name[:-4] if name.endswith('+ban') else name
    if core.endswith('mvdr_souden'):
        kw['ref_channel'] = ref
    if core.endswith('wmwf'):
        kw['reference_channel'] = ref
    got = get_bf_vector(name, T, N, **kw)
    want = _compose(name, T, N, ref=ref)
    env.shape_is('vector', got, (F, D))
    env.eq('equals_composition_of_primitives', got, want)


def h_apply(env, lead=(2,), D=2, T=2):
    from pb_bss.extraction.beamformer import apply_beamforming_vector
    w = env.cplx('w', tuple(lead) + (D,), lo=-2, hi=2)
    x = env.cplx('x', tuple(lead) + (D, T), lo=-2, hi=2)
    env.readonly(w); env.readonly(x)
    y = apply_beamforming_vector(w, x)
    env.shape_is('y', y, tuple(lead) + (T,))
    for li in np.ndindex(*lead):
        for t in range(T):
            s = 0.0
            for d in range(D):
                s = env.conj(env.el(w, li + (d,))) * env.el(x, li + (d, t)) + s
            env.eq('wHx%s[%d]' % (list(li), t), env.el(y, li + (t,)), s)


def h_stack(env, fn='souden', lead=(2,), F=2, D=2):
    """a beamforming function applied to a stack equals the stack of its results on the slices"""
    from pb_bss.extraction import beamformer as bf
    env.assume_divisors_nonzero('quotients are defined')
    T = _target(env, 'Lt', tuple(lead) + (F,), D)
    Nf = noise_psd(env, 'conc', F * int(np.prod(lead)), D)
    N = Nf.reshape(tuple(lead) + (F, D, D))
    calls = {
        'souden': lambda t, n: bf.get_mvdr_vector_souden(t, n, ref_channel=1),
        'souden_ref0': lambda t, n: bf.get_mvdr_vector_souden(t, n, ref_channel=0),
        'wmwf_ref0': lambda t, n: bf.get_wmwf_vector(t, n, reference_channel=0),
        'wmwf': lambda t, n: bf.get_wmwf_vector(t, n, reference_channel=1),
        'pca': lambda t, n: bf.get_pca_vector(t),
        'pca_trace': lambda t, n: bf.get_pca_vector(t, scaling='trace'),
        'gev': lambda t, n: bf.get_gev_vector(t, n),
        'ban': lambda t, n: bf.blind_analytic_normalization(t[..., 0], n),
        'mvdr': lambda t, n: bf.get_mvdr_vector(t[..., 0], n),
    }
    f = calls[fn]
    if fn == 'mvdr':
        # get_mvdr_vector broadcasts a (bins, D, D) noise PSD over leading source axes of the steering vectors
        stacked = f(T, N[(0,) * len(lead)])
        for li in np.ndindex(*lead):
            env.eq('slice%s' % list(li), stacked[li], f(T[li], N[(0,) * len(lead)]))
        return
    stacked = f(T, N)
    for li in np.ndindex(*lead):
        env.eq('slice%s' % list(li), stacked[li], f(T[li], N[li]))


def h_phase(env, lead=(), F=3, D=2):
    from pb_bss.extraction.beamformer import phase_correction
    v = env.cplx('v', tuple(lead) + (F, D), lo=-2, hi=2)
    v0 = v.copy()
    env.readonly(v)
    out = phase_correction(v)
    env.eq('input_untouched', v, v0)
    env.shape_is('out', out, tuple(lead) + (F, D))
    for li in (np.ndindex(*lead) if lead else [()]):
        for f in range(F):
            for d in range(D):
                env.eq('magnitude_unchanged%s[%d,%d]' % (list(li), f, d), env.abs2(env.el(out, li + (f, d))), env.abs2(env.el(v0, li + (f, d))))
        phases = {}
        for f in range(1, F):
            ip_in = None
            ip_out = 0.0
            for d in range(D):
                t = env.conj(env.el(v0, li + (f, d))) * env.el(v0, li + (f - 1, d))
                ip_in = t if ip_in is None else ip_in + t          # same summation order as np.sum
                ip_out = env.conj(env.el(out, li + (f, d))) * env.el(out, li + (f - 1, d)) + ip_out
            if not env.sym:
                env.eq('consecutive_bins_aligned%s[%d]' % (list(li), f), ip_out, abs(ip_in))
                continue
            # lemma pipeline.  (a) polynomial identity: ip_out == conj(ph_f) * ip_in * prod_{h<f} |ph_h|^2 with ph_h the
            # unit phasors of the angle stub; (b) abstract lemma: re = m c, im = m s, c^2 + s^2 = 1  =>  conj(ph) (re + j im) = m
            import z3
            from symnp.core import SC, SR, CTX
            from symnp.array import lift
            th = np.angle(lift(SC(ip_in)))
            c, s_ = SR(th._a[()]).cos(), SR(th._a[()]).sin()
            ph = SC(c, s_)
            phases[f] = ph
            prev = SR(1)
            for h in range(1, f):
                prev = prev * (phases[h].re * phases[h].re + phases[h].im * phases[h].im)
            mag = abs(SC(ip_in))
            env.eq('step_a_identity%s[%d]' % (list(li), f), ip_out, ph.conjugate() * SC(ip_in) * prev)
            if f == 1 and not any(li):
                m, cc, ss, re, im = [z3.Real('lem_' + n) for n in ('m', 'c', 's', 're', 'im')]
                env.lemma('unit_phasor_rotates_onto_magnitude', [re == m * cc, im == m * ss, cc * cc + ss * ss == 1],
                          z3.And(cc * re + ss * im == m, cc * im - ss * re == 0))
            ip = SC(ip_in)
            env.extra_axioms.append(z3.And((c * ip.re + s_ * ip.im).z == SR(mag).z, (c * ip.im - s_ * ip.re).z == 0))
            env.eq('consecutive_bins_aligned%s[%d]' % (list(li), f), ph.conjugate() * SC(ip_in) * prev, mag)
    if lead:
        for li in np.ndindex(*lead):
            env.eq('per_leading_index%s' % list(li), out[li], phase_correction(v0[li]))


def h_singular(env, fn='souden', D=2):
    """zero / singular noise bins next to a regular one: finite result, regular bin unaffected"""
    from pb_bss.extraction import beamformer as bf
    from symnp import stubs
    T = _target(env, 'Lt', (3,), D)
    reg = np.array([[2, 0.5 - 0.25j], [0.5 + 0.25j, 1]])
    N = np.array([np.zeros((2, 2)), [[1, 1], [1, 1]], reg], dtype=np.complex128)
    Treg = T[2:3]
    if env.sym:
        from symnp.array import lift
        N = lift(N)
        stubs.SOLVE_MAY_FAIL[0] = True
    try:
        if fn == 'souden':
            w = bf.get_mvdr_vector_souden(T, N, ref_channel=0)
            wr = bf.get_mvdr_vector_souden(Treg, N[2:3], ref_channel=0)
        else:
            w = bf.get_wmwf_vector(T, N, reference_channel=0)
            wr = bf.get_wmwf_vector(Treg, N[2:3], reference_channel=0)
    finally:
        if env.sym:
            stubs.SOLVE_MAY_FAIL[0] = False
    env.shape_is('w', w, (3, D))
    env.isfinite('finite', w)
    env.check_divisors('finite')
    env.eq('regular_bin_unaffected', w[2], wr[0])
    env.eq('zero_bin_gives_zero_vector', w[0], np.zeros(D))
    # all-zero target and noise
    Z = np.zeros((2, D, D), dtype=np.complex128)
    if env.sym:
        from symnp.array import lift
        Z = lift(Z)
        stubs.SOLVE_MAY_FAIL[0] = True
    try:
        wz = bf.get_mvdr_vector_souden(Z, Z, ref_channel=0) if fn == 'souden' else bf.get_wmwf_vector(Z, Z, reference_channel=0)
    finally:
        if env.sym:
            stubs.SOLVE_MAY_FAIL[0] = False
    env.eq('all_zero_psds_give_zero_vector', wz, np.zeros((2, D)))


# properties whose thorough extras were run end-to-end on the unchanged tree (exit 0); others: thorough == quick
from harness.thorough_verified import THOROUGH_VERIFIED


def cases(tier):
    import os
    q = tier == 'quick' or 'C13' not in THOROUGH_VERIFIED and os.environ.get('VERIF_TRY_EXTRAS') != '1'
    cs = []
    for name in NAMES:
        for ban in ([False, True] if (not q or name in ('mvdr_souden', 'gev', 'wmwf', 'pca')) else [False]):
            nm = name + ('+ban' if ban else '')
            for ref in ([0, 1] if ('souden' in name or 'wmwf' in name) else [0]):
                if nm == 'mvdr_souden+ban' and ref == 0:
                    continue            # sqrt of a quadratic form whose sign the solver cannot settle quickly (ref 1 is kept)
                cs.append(Case('wrapper/%s_ref%d' % (nm, ref), h_wrapper, dict(name=nm, F=2, D=2, ref=ref),
                               bounds='D=2 F=2, symbolic full-rank target, concrete PD noise', lazy=True, timeout_ms=60000, cosim=1))
    cs.append(Case('apply/lead1', h_apply, dict(lead=(2,), D=2, T=2), bounds='(2, D=2, T=2)'))
    cs.append(Case('apply/lead2', h_apply, dict(lead=(2, 2), D=2, T=1), bounds='(2, 2, D=2, T=1)'))
    for fn in ['souden', 'wmwf', 'souden_ref0', 'wmwf_ref0', 'pca', 'pca_trace', 'gev', 'ban', 'mvdr']:
        cs.append(Case('stack/%s' % fn, h_stack, dict(fn=fn, lead=(2,), F=2, D=2), bounds='leading (2,), F=2, D=2', lazy=True, timeout_ms=60000, cosim=1))
    cs.append(Case('phase/F3', h_phase, dict(lead=(), F=3, D=1), bounds='F=3 D=1 no leading axis', timeout_ms=120000))
    cs.append(Case('phase/F2_D2', h_phase, dict(lead=(), F=2, D=2), bounds='F=2 D=2 no leading axis', timeout_ms=120000))
    cs.append(Case('phase/lead2_F2', h_phase, dict(lead=(2,), F=2, D=2), bounds='leading (2,), F=2 D=2', timeout_ms=120000))
    cs.append(Case('phase/lead2_F3', h_phase, dict(lead=(2,), F=3, D=1), bounds='leading (2,), F=3 D=1', timeout_ms=120000))
    for fn in ['souden', 'wmwf']:
        cs.append(Case('singular/%s' % fn, h_singular, dict(fn=fn), bounds='D=2, noise bins: zero, rank-1 ones, regular (concrete); symbolic target', timeout_ms=60000, lazy=True, budget_s=200))
    return cs
