"""C11  MVDR, LCMV and Wiener beamformers satisfy their constraints and optimality."""
import itertools
import numpy as np
from symnp.runner import Case
from harness.bf_common import pd_matrix, psd_rank1, herm, noise_psd

OUTSIDE = ('D > 2 (3 thorough), F > 2, K > 2; condition numbers / rounding (reals); noise PSD = L L^H with diag(L) >= 0.3; '
           'MVDR optimality is decided through the identity u^H P u - w^H P w = (u-w)^H P (u-w) for distortionless u '
           'plus an abstract sum-of-squares lemma')


def _nonzero(env, a, lead):
    for li in np.ndindex(*lead):
        env.assume(env.abs2(env.el(a, li + (0,))) >= 0.01, 'steering vectors: |a_0|^2 >= 0.01')


def h_mvdr(env, F=1, D=2, K=None, noise='conc'):
    from pb_bss.extraction.beamformer import get_mvdr_vector
    env.assume_divisors_nonzero('quotients are defined: a^H P^-1 a != 0, tr(P^-1 T) + mu != 0 (true for positive definite P and a != 0; not re-proved by the solver)')
    P = noise_psd(env, noise, F, D)
    alead = ((K,) if K else ()) + (F,)
    a = env.cplx('a', alead + (D,), lo=-2, hi=2)
    _nonzero(env, a, alead)
    P0 = P.copy(); a0 = a.copy()
    env.readonly(a)
    w = get_mvdr_vector(a, P)
    env.shape_is('w', w, alead + (D,))
    env.eq('steering_untouched', a, a0)
    env.eq('noise_psd_untouched', P, P0)
    for li in np.ndindex(*alead):
        f = li[-1]
        wa = 0.0
        for d in range(D):
            wa = env.conj(env.el(w, li + (d,))) * env.el(a, li + (d,)) + wa
        env.eq('distortionless%s' % list(li), wa, 1.0)
        # optimality: any u with u^H a = 1  ->  u^H P u - w^H P w == (u-w)^H P (u-w) == |L^H (u-w)|^2 >= 0
        if noise == 'sym':
            continue
        if env.sym:
            import z3
            from symnp.core import SC, SR
            tagu = '_'.join(map(str, li))
            u = [SC(SR(z3.Real('u%s_%dr' % (tagu, d))), SR(z3.Real('u%s_%di' % (tagu, d)))) for d in range(D)]
            ua = 0
            for d in range(D):
                ua = u[d].conjugate() * env.el(a, li + (d,)) + ua
            hyp = (ua == 1)
            wv = [env.el(w, li + (d,)) for d in range(D)]

            def q(x, y):
                t = 0
                for i in range(D):
                    for j in range(D):
                        t = x[i].conjugate() * env.el(P, (f, i, j)) * y[j] + t
                return t
            diff = [u[d] - wv[d] for d in range(D)]
            lhs = q(u, u) - q(wv, wv)
            rhs = q(diff, diff)
            env.assume_path(hyp, None)
            env.eq('excess_noise_power_is_quadratic_form_of_difference%s' % list(li), lhs, rhs)
            # positivity of the concrete Hermitian form: abstract lemma over a fresh difference vector
            dv = [SC(SR(z3.Real('lem_d%dr' % d)), SR(z3.Real('lem_d%di' % d))) for d in range(D)]
            env.lemma('noise_psd_quadratic_form_nonneg[%d]' % f, [], SR(q(dv, dv).re).z >= 0)
        else:
            Pm = np.asarray(P)[f]
            rng = np.random.RandomState(5)
            for _ in range(3):
                u = rng.randn(D) + 1j * rng.randn(D)
                av = np.asarray(a)[li]
                u = u / np.conj(np.vdot(u, av))          # u^H a = 1
                wv = np.asarray(w)[li]
                env.le('not_worse_than_probe%s' % list(li), np.real(np.vdot(wv, Pm @ wv)), np.real(np.vdot(u, Pm @ u)))


def h_lcmv(env, K=2, F=1, D=2, noise='sym'):
    from pb_bss.extraction.beamformer import get_lcmv_vector
    env.assume_divisors_nonzero('quotients are defined: a^H P^-1 a != 0, tr(P^-1 T) + mu != 0 (true for positive definite P and a != 0; not re-proved by the solver)')
    P = noise_psd(env, noise, F, D)
    a = env.cplx('a', (K, F, D), lo=-2, hi=2)
    # constraints must be independent: for K == D == 2 require a non-vanishing determinant per bin
    if K == 2 and D == 2:
        for f in range(F):
            det = env.el(a, (0, f, 0)) * env.el(a, (1, f, 1)) - env.el(a, (0, f, 1)) * env.el(a, (1, f, 0))
            env.assume(env.abs2(det) >= 0.01, 'steering vectors linearly independent (|det|^2 >= 0.01)')
    else:
        _nonzero(env, a, (K, F))
    if K == 1:
        resp = [1.0]
    else:
        resp = [1.0] + [0.0] * (K - 1)
    w = get_lcmv_vector(a, resp, P)
    env.shape_is('w', w, (F, D))
    for f in range(F):
        for k in range(K):
            wa = 0.0
            for d in range(D):
                wa = env.conj(env.el(w, (f, d))) * env.el(a, (k, f, d)) + wa
            env.eq('constraint[%d,%d]' % (f, k), wa, resp[k], atol=1e-6)


def h_souden(env, F=1, D=2, ref=0, noise='conc'):
    from pb_bss.extraction.beamformer import get_mvdr_vector_souden, get_mvdr_vector
    env.assume_divisors_nonzero('quotients are defined: a^H P^-1 a != 0, tr(P^-1 T) + mu != 0 (true for positive definite P and a != 0; not re-proved by the solver)')
    P = noise_psd(env, noise, F, D)
    a = env.cplx('a', (F, D), lo=-2, hi=2)
    _nonzero(env, a, (F,))
    sigma = env.real('sigma', (), lo=0.1, hi=10)
    T = psd_rank1(env, a, sigma)
    T0, P0 = T.copy(), P.copy()
    w = get_mvdr_vector_souden(T, P, ref_channel=ref)
    env.shape_is('w', w, (F, D))
    env.eq('target_untouched', T, T0)
    env.eq('noise_untouched', P, P0)
    wm = get_mvdr_vector(a, P)
    for f in range(F):
        for d in range(D):
            env.eq('souden_is_scaled_mvdr[%d,%d]' % (f, d), env.el(w, (f, d)), env.el(wm, (f, d)) * env.conj(env.el(a, (f, ref))))
    s = env.real('s', (), lo=0.01, hi=100)
    env.eq('invariant_to_target_scale', get_mvdr_vector_souden(T * s, P, ref_channel=ref), w)
    for sc in (0.25, 3.0):
        env.eq('invariant_to_noise_scale_%g' % sc, get_mvdr_vector_souden(T, P * sc, ref_channel=ref), w)


def h_wmwf(env, F=1, D=2, ref=0, mu_zero=False, noise='conc'):
    from pb_bss.extraction.beamformer import get_wmwf_vector, get_mvdr_vector_souden
    env.assume_divisors_nonzero('quotients are defined: a^H P^-1 a != 0, tr(P^-1 T) + mu != 0 (true for positive definite P and a != 0; not re-proved by the solver)')
    P = noise_psd(env, noise, F, D)
    a = env.cplx('a', (F, D), lo=-2, hi=2)
    _nonzero(env, a, (F,))
    sigma = env.real('sigma', (), lo=0.1, hi=10)
    T = psd_rank1(env, a, sigma)
    if mu_zero:
        w = get_wmwf_vector(T, P, reference_channel=ref, distortion_weight=0.)
        ws = get_mvdr_vector_souden(T, P, ref_channel=ref)
        env.eq('mu0_equals_souden', w, ws)
        return
    mu = env.real('mu', (), lo=0, hi=100)
    w = get_wmwf_vector(T, P, reference_channel=ref, distortion_weight=mu if env.sym else float(mu))
    env.shape_is('w', w, (F, D))
    for f in range(F):
        for i in range(D):
            lhs = 0.0
            for j in range(D):
                lhs = (env.el(T, (f, i, j)) + env.el(mu) * env.el(P, (f, i, j))) * env.el(w, (f, j)) + lhs
            env.eq('normal_equations[%d,%d]' % (f, i), lhs, env.el(T, (f, i, ref)))
    for sc in (0.25, 3.0):
        env.eq('invariant_to_joint_scale_%g' % sc, get_wmwf_vector(T * sc, P * sc, reference_channel=ref, distortion_weight=mu if env.sym else float(mu)), w)


def _snr_criterion(env, W, T, P, F, D, r):
    """library's own criterion: sum_f w_r^H T w_r / max(sum_f w_r^H P w_r, eps) for column r of W"""
    num = 0.0; den = 0.0
    for f in range(F):
        for i in range(D):
            for j in range(D):
                num = env.conj(env.el(W, (f, i, r))) * env.el(T, (f, i, j)) * env.el(W, (f, j, r)) + num
                den = env.conj(env.el(W, (f, i, r))) * env.el(P, (f, i, j)) * env.el(W, (f, j, r)) + den
    return env.re(num), env.re(den)


def h_autoref(env, which='souden', F=2, D=2, noise='conc'):
    """the automatically chosen reference channel maximises the library's own output-SNR criterion"""
    from pb_bss.extraction import beamformer as bf
    env.assume_divisors_nonzero('quotients are defined: a^H P^-1 a != 0, tr(P^-1 T) + mu != 0 (true for positive definite P and a != 0; not re-proved by the solver)')
    P = noise_psd(env, noise, F, D)
    Lt = env.cplx('Lt', (F, D, D), lo=-2, hi=2)
    T = Lt @ herm(Lt)
    if which == 'souden':
        w, ref = bf.get_mvdr_vector_souden(T, P, return_ref_channel=True)
        W = np.stack([bf.get_mvdr_vector_souden(T, P, ref_channel=r) for r in range(D)], axis=-1)
    else:
        mu = 1.0
        W = np.stack([bf.get_wmwf_vector(T, P, reference_channel=r, distortion_weight=mu) for r in range(D)], axis=-1)
        w = bf.get_wmwf_vector(T, P, distortion_weight=mu)
        ref = None
        for r in range(D):
            if _same(env, w, W[..., r]):
                ref = r
                break
        env._record_plain('result_is_one_of_the_reference_channel_solutions', ref is not None)
        if ref is None:
            return
    ref = int(ref)
    env.eq('vector_is_solution_for_chosen_channel', w, W[..., ref])
    # the library's own criterion, evaluated on the explicit per-channel solutions W[..., r]:
    #   SNR_r = Re( sum_f w_r^H T w_r / max(sum_f w_r^H P w_r, eps) )
    eps = np.finfo(np.float64).tiny
    num = np.einsum('...FdR,...FdD,...FDR->...R', np.conjugate(W), T, W)
    den = np.einsum('...FdR,...FdD,...FDR->...R', np.conjugate(W), P, W)
    snr = (num / np.maximum(den, eps)).real
    for r in range(D):
        if r != ref:
            env.le('chosen_channel_maximises_snr[%d]' % r, snr[r], snr[ref])


def _same(env, a, b):
    if env.sym:
        import z3
        from symnp.core import SC
        for x, y in zip(a._a.ravel(), b._a.ravel()):
            x, y = SC(x), SC(y)
            if not (z3.simplify(x.re.z - y.re.z, som=True, sort_sums=True).eq(z3.RealVal(0)) and z3.simplify(x.im.z - y.im.z, som=True, sort_sums=True).eq(z3.RealVal(0))):
                return False
        return True
    return bool(np.allclose(np.asarray(a), np.asarray(b), rtol=1e-12, atol=1e-14))


# properties whose thorough extras were run end-to-end on the unchanged tree (exit 0); others: thorough == quick
from harness.thorough_verified import THOROUGH_VERIFIED


def cases(tier):
    import os
    q = tier == 'quick' or 'C11' not in THOROUGH_VERIFIED and os.environ.get('VERIF_TRY_EXTRAS') != '1'
    D = 2
    cs = [
        Case('mvdr/F1', h_mvdr, dict(F=1, D=D), bounds='D=2 F=1, concrete PD noise PSD', timeout_ms=60000),
        Case('mvdr/sym_F2', h_mvdr, dict(F=2, D=D, noise='sym'), bounds='D=2 F=2, symbolic PD noise PSD (distortionless clause only)', timeout_ms=60000),
        Case('mvdr/sym_K2_F2', h_mvdr, dict(F=2, D=D, K=2, noise='sym'), bounds='D=2 F=2 K=2 stacked, symbolic PD noise PSD (distortionless clause only)', timeout_ms=60000),
        Case('mvdr/F2', h_mvdr, dict(F=2, D=D), bounds='D=2 F=2 (F == D: matrix/vector ambiguity of solve)', timeout_ms=60000),
        Case('mvdr/K2_F2', h_mvdr, dict(F=2, D=D, K=2), bounds='D=2 F=2, 2 sources stacked', timeout_ms=60000),
        Case('mvdr/F3', h_mvdr, dict(F=3, D=D), bounds='D=2 F=3', timeout_ms=60000),
        Case('lcmv/K2_F1', h_lcmv, dict(K=2, F=1, D=D), bounds='K=2 D=2 F=1', timeout_ms=60000),
        Case('lcmv/K1_F2', h_lcmv, dict(K=1, F=2, D=D, noise='conc'), bounds='K=1 D=2 F=2 concrete PD noise', timeout_ms=60000),
        Case('lcmv/K2_F2', h_lcmv, dict(K=2, F=2, D=D), bounds='K=2 D=2 F=2', timeout_ms=60000),
        Case('souden/F1_ref0', h_souden, dict(F=1, D=D, ref=0), bounds='D=2 F=1 ref 0', timeout_ms=60000),
        Case('souden/F2_ref1', h_souden, dict(F=2, D=D, ref=1), bounds='D=2 F=2 ref 1', timeout_ms=60000),
        Case('wmwf/F1_ref0', h_wmwf, dict(F=1, D=D, ref=0), bounds='D=2 F=1 ref 0, mu in [0,100]', timeout_ms=60000),
        Case('wmwf/F2_ref1', h_wmwf, dict(F=2, D=D, ref=1), bounds='D=2 F=2 ref 1', timeout_ms=60000),
        Case('wmwf/mu0', h_wmwf, dict(F=2, D=D, ref=0, mu_zero=True), bounds='D=2 F=2 mu=0', timeout_ms=60000),
        Case('autoref/souden', h_autoref, dict(which='souden', F=2, D=D), bounds='D=2 F=2 full-rank target', lazy=True, timeout_ms=60000),
        Case('autoref/wmwf', h_autoref, dict(which='wmwf', F=2, D=D), bounds='D=2 F=2 full-rank target, mu=1', lazy=True, timeout_ms=60000),
    ]
    if not q:
        cs += [Case('mvdr/D3', h_mvdr, dict(F=1, D=3), bounds='D=3 F=1', timeout_ms=300000),
               Case('souden/D3', h_souden, dict(F=1, D=3, ref=2), bounds='D=3 F=1', timeout_ms=300000),
               Case('wmwf/D3', h_wmwf, dict(F=1, D=3, ref=1), bounds='D=3 F=1', timeout_ms=300000)]
    return cs
