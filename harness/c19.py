"""C19  SI-SDR and invasive SXR metrics obey their defining identities."""
import itertools
import numpy as np
from symnp.runner import Case

OUTSIDE = ('T > 4 samples, K > 3 sources, > 3 outputs; log10/pow10 are uninterpreted (congruence, log10(a b) = log10 a + '
           'log10 b and log10(10^x) = x instantiated on the terms of the harness); rounding; exact ties of captured power '
           'are explored as paths but order independence is claimed on tie-free paths only')


def _log10(env, x):
    if env.sym:
        from symnp.core import SR
        return SR(x).log10()
    import math
    return math.log10(x) if x > 0 else (float('-inf') if x == 0 else float('nan'))


def _pos(env, label, x, lo=1e-6):
    env.assume_path(x >= lo, 'powers / residuals are >= 1e-6 (ratios defined)')


def h_si_sdr(env, T=3, lead=()):
    from pb_bss.evaluation.module_si_sdr import si_sdr
    s = env.real('s', tuple(lead) + (T,), lo=-3, hi=3)
    e = env.real('e', tuple(lead) + (T,), lo=-3, hi=3)
    c = env.real('c', (), lo=1e-6, hi=1e6)
    sign = env.real('sg', (), lo=-1, hi=1)
    env.assume((sign == 1) | (sign == -1), 'scale factor c*sign with sign in {-1, +1}, |c| in [1e-6, 1e6]')
    cc = c * sign
    env.readonly(s); env.readonly(e)
    out = si_sdr(s, e)
    env.shape_is('out', out, tuple(lead))
    for li in (np.ndindex(*lead) if lead else [()]):
        ss = 0.0; se = 0.0
        for t in range(T):
            ss = ss + env.el(s, li + (t,)) * env.el(s, li + (t,))
            se = se + env.el(s, li + (t,)) * env.el(e, li + (t,))
        env.assume(ss >= 1e-3, 'reference energy >= 1e-3')
        alpha = se / ss
        num = 0.0; den = 0.0
        for t in range(T):
            p = alpha * env.el(s, li + (t,))
            r = env.el(e, li + (t,)) - p
            num = num + p * p
            den = den + r * r
        env.assume(den >= 1e-3, 'residual energy >= 1e-3')
        env.assume(num >= 1e-3, 'projection energy >= 1e-3')
        env.eq('definition%s' % list(li), env.el(out, li), 10 * _log10(env, num / den))
    o2 = si_sdr(s, e * cc)
    env.eq('invariant_to_estimate_scale', o2, out)
    o3 = si_sdr(s * cc, e)
    env.eq('invariant_to_reference_scale', o3, out)
    if lead:
        for li in np.ndindex(*lead):
            oi = si_sdr(s[li], e[li])
            env.eq('per_row%s' % list(li), oi, out[li])


def _power(env, x, idx, T):
    s = 0.0
    for t in range(T):
        v = env.el(x, idx + (t,))
        s = s + v * v
    return s / T


def h_input_sxr(env, K=2, D=2, T=2, average_sources=True, average_channels=True):
    from pb_bss.evaluation.sxr_module import input_sxr
    images = env.real('x', (K, D, T), lo=-3, hi=3)
    noise = env.real('n', (D, T), lo=-3, hi=3)
    env.readonly(images); env.readonly(noise)
    res = input_sxr(images, noise, average_sources=average_sources, average_channels=average_channels)
    S = [[_power(env, images, (k, d), T) for d in range(D)] for k in range(K)]
    N = [_power(env, noise, (d,), T) for d in range(D)]
    for k in range(K):
        for d in range(D):
            env.assume(S[k][d] >= 1e-2, 'every image / noise channel power >= 1e-2')
    for d in range(D):
        env.assume(N[d] >= 1e-2)
    I = [[sum_(S[n][d] for n in range(K) if n != k) for d in range(D)] for k in range(K)]
    if average_channels:
        Sx = [[sum_(S[k]) / D] for k in range(K)]
        Ix = [[sum_(I[k]) / D] for k in range(K)]
        Nx = [sum_(N) / D]
    else:
        Sx, Ix, Nx = S, I, N
    nd = len(Nx)
    want = {}
    for name, den in (('sdr', lambda k, d: Ix[k][d] + Nx[d]), ('sir', lambda k, d: Ix[k][d]), ('snr', lambda k, d: Nx[d])):
        per = [[10 * _log10(env, Sx[k][d] / den(k, d)) for d in range(nd)] for k in range(K)]
        if average_sources:
            per = [sum_(per[k][d] for k in range(K)) / K for d in range(nd)]
            want[name] = per[0] if average_channels else per
        else:
            want[name] = [per[k][0] for k in range(K)] if average_channels else per
    if K == 1:
        pass
    for name in ('sdr', 'sir', 'snr'):
        if K == 1 and name != 'snr':
            continue
        got = getattr(res, name)
        env.eq('definition_' + name, got, _arr(env, want[name]))
    # common rescaling of all signals
    c = env.real('c', (), lo=1e-6, hi=1e6)
    res2 = input_sxr(images * c, noise * c, average_sources=average_sources, average_channels=average_channels)
    for name in ('sdr', 'sir', 'snr'):
        if K == 1 and name != 'snr':
            continue
        env.eq('common_rescaling_' + name, getattr(res2, name), getattr(res, name))
    # scaling the images only: SIR unchanged, SNR + 20 log10 c
    res3 = input_sxr(images * c, noise, average_sources=average_sources, average_channels=average_channels)
    if K > 1:
        env.eq('image_scaling_sir', res3.sir, res.sir)
    if env.sym:
        import z3
        from symnp.core import SR, CTX
        cz = SR(env.el(c)).z
        lc = SR(env.el(c)).log10().z
        for (nm, _k), (a, v) in list(CTX.uf_reg.items()):
            if nm == 'log10':
                # log10(c^2 a) = 2 log10 c + log10 a  for every registered argument a > 0
                a2 = SR(cz * cz * a).log10().z
                env.extra_axioms.append(z3.Implies(a > 0, a2 == 2 * lc + v))
    env.eq('image_scaling_snr', res3.snr, res.snr + 20 * _log10(env, env.el(c)))
    # return_dict
    d1 = input_sxr(images, noise, average_sources=average_sources, average_channels=average_channels, return_dict=True)
    env._record_plain('return_dict_true_keys', isinstance(d1, dict) and sorted(d1) == ['sdr', 'sir', 'snr'], detail=str(type(d1)))
    d2 = input_sxr(images, noise, average_sources=average_sources, average_channels=average_channels, return_dict='in_')
    env._record_plain('return_dict_prefix_keys', isinstance(d2, dict) and sorted(d2) == ['in_sdr', 'in_sir', 'in_snr'], detail=str(type(d2)))
    if isinstance(d2, dict) and 'in_snr' in d2:
        env.eq('return_dict_prefix_value', d2['in_snr'], res.snr)


def sum_(xs):
    t = 0.0
    for x in xs:
        t = t + x
    return t


def _arr(env, x):
    if env.sym:
        from symnp.array import lift
        return lift(x) if isinstance(x, list) else x
    return np.array(x, dtype=float)


def h_output_sxr(env, Ks=2, Kt=2, T=1, average_sources=False, permute=None):
    from pb_bss.evaluation.sxr_module import output_sxr
    img = env.real('x', (Ks, Kt, T), lo=-3, hi=3)
    noi = env.real('n', (Kt, T), lo=-3, hi=3)
    env.readonly(img); env.readonly(noi)
    S = [[_power(env, img, (i, j), T) for j in range(Kt)] for i in range(Ks)]
    N = [_power(env, noi, (j,), T) for j in range(Kt)]
    for i in range(Ks):
        for j in range(Kt):
            env.assume(S[i][j] >= 1e-2, 'every contribution power >= 1e-2')
    for j in range(Kt):
        env.assume(N[j] >= 1e-2)
    res = output_sxr(img, noi, average_sources=average_sources)
    # oracle selection: first maximiser of the captured power over all picks (itertools order)
    sels = list(itertools.permutations(range(Kt), r=Ks))
    pw = [sum_(S[i][p[i]] for i in range(Ks)) for p in sels]
    best = 0
    for q in range(1, len(sels)):
        if bool(pw[q] > pw[best]):
            best = q
    sel = sels[best]
    want = {'sdr': [], 'sir': [], 'snr': []}
    for i in range(Ks):
        SS = S[i][sel[i]]
        II = sum_(S[n][sel[i]] for n in range(Ks) if n != i)
        NN = N[sel[i]]
        want['sdr'].append(10 * _log10(env, SS / (II + NN)))
        want['snr'].append(10 * _log10(env, SS / NN))
        if Ks > 1:
            want['sir'].append(10 * _log10(env, SS / II))
    for name in ('sdr', 'sir', 'snr'):
        if Ks == 1 and name == 'sir':
            continue
        w = want[name]
        if average_sources:
            w = sum_(w) / Ks
        env.eq('definition_with_power_maximising_selection_' + name, getattr(res, name), _arr(env, w))
    # independence of the order of the outputs (tie-free: strict maximum)
    if permute is not None:
        strict = True
        for q in range(len(sels)):
            if q != best:
                strict = strict and bool(pw[best] > pw[q])
        if strict:
            res2 = output_sxr(img[:, list(permute)], noi[list(permute)], average_sources=average_sources)
            for name in ('sdr', 'sir', 'snr'):
                if Ks == 1 and name == 'sir':
                    continue
                env.eq('output_order_independent_' + name, getattr(res2, name), getattr(res, name))
    d1 = output_sxr(img, noi, average_sources=average_sources, return_dict=True)
    env._record_plain('return_dict_true_keys', isinstance(d1, dict) and sorted(d1) == ['sdr', 'sir', 'snr'], detail=str(type(d1)))
    d2 = output_sxr(img, noi, average_sources=average_sources, return_dict='out_')
    env._record_plain('return_dict_prefix_keys', isinstance(d2, dict) and sorted(d2) == ['out_sdr', 'out_sir', 'out_snr'], detail=str(type(d2)))


def h_set_snr(env, T=3):
    from pb_bss.evaluation.sxr_module import set_snr, get_snr
    X = env.real('x', (T,), lo=-3, hi=3)
    N = env.real('n', (T,), lo=-3, hi=3)
    snr = env.real('snr', (), lo=-30, hi=30)
    pX = _power(env, X, (), T)
    pN = _power(env, N, (), T)
    env.assume(pX >= 1e-2, 'signal and noise power >= 1e-2')
    env.assume(pN >= 1e-2)
    env.readonly(X)
    N0 = N.copy()
    X2, N2 = set_snr(X, N, env.el(snr) if not env.sym else snr, inplace=False)
    env.eq('noise_untouched_when_not_inplace', N, N0)
    got = get_snr(X2, N2)
    if env.sym:
        import z3
        from symnp.core import SR, CTX
        # axioms on the harness's own terms: log10(10^u) = u ; log10(a / (f^2 b)) = log10(a/b) - 2 log10 f
        pows = [(a, v) for (nm, _k), (a, v) in CTX.uf_reg.items() if nm == 'pow10']
        for (u, p) in pows:
            lp = SR(p).log10().z
            env.extra_axioms.append(lp == u)
            env.extra_axioms.append(p > 0)
            r = SR(pX).z
            base = SR(pX / pN).log10().z
            tgt = SR(SR(pX) / (SR(p) * SR(p) * SR(pN))).log10().z
            env.extra_axioms.append(tgt == base - 2 * lp)
    env.eq('get_snr_after_set_snr', got, snr)


# properties whose thorough extras were run end-to-end on the unchanged tree (exit 0); others: thorough == quick
from harness.thorough_verified import THOROUGH_VERIFIED


def cases(tier):
    import os
    q = tier == 'quick' or 'C19' not in THOROUGH_VERIFIED and os.environ.get('VERIF_TRY_EXTRAS') != '1'
    cs = [
        Case('si_sdr/T3', h_si_sdr, dict(T=3), bounds='T=3, |values| <= 3', timeout_ms=60000),
        Case('si_sdr/T2_lead2', h_si_sdr, dict(T=2, lead=(2,)), bounds='T=2, 2 rows', timeout_ms=60000),
    ]
    for avs in [True, False]:
        for avc in [True, False]:
            cs.append(Case('input_sxr/K2_D2_src%d_ch%d' % (avs, avc), h_input_sxr,
                           dict(K=2, D=2, T=2, average_sources=avs, average_channels=avc), bounds='K=2 D=2 T=2', timeout_ms=60000))
    cs.append(Case('input_sxr/K3_D1', h_input_sxr, dict(K=3, D=1, T=1, average_sources=False), bounds='K=3 D=1 T=1', timeout_ms=60000))
    for avs in [False, True]:
        cs.append(Case('output_sxr/2x2_avg%d' % avs, h_output_sxr, dict(Ks=2, Kt=2, T=2, average_sources=avs, permute=(1, 0)),
                       bounds='2 sources 2 outputs T=2', lazy=True, timeout_ms=60000))
    cs.append(Case('output_sxr/2x3', h_output_sxr, dict(Ks=2, Kt=3, T=1, permute=(2, 0, 1)), bounds='2 sources 3 outputs T=1', lazy=True,
                   timeout_ms=60000, max_paths=5000))
    cs.append(Case('output_sxr/3x3', h_output_sxr, dict(Ks=3, Kt=3, T=1, permute=(1, 2, 0)), bounds='3 sources 3 outputs T=1, outputs cyclically shifted', lazy=True,
                   timeout_ms=60000, max_paths=5000))
    cs.append(Case('set_snr', h_set_snr, dict(T=3), bounds='T=3, snr in [-30, 30] dB', timeout_ms=60000))
    if not q:
        cs.append(Case('si_sdr/T4', h_si_sdr, dict(T=4), bounds='T=4', timeout_ms=120000))
        cs.append(Case('input_sxr/K3_D2', h_input_sxr, dict(K=3, D=2, T=2), bounds='K=3 D=2 T=2', timeout_ms=120000))
    return cs
