"""C12  GEV and PCA beamformers maximise their Rayleigh quotients; BAN only rescales."""
import itertools
import numpy as np
from symnp.runner import Case
from harness.bf_common import pd_matrix, herm, noise_psd, concrete_pd

ALIASES = {'parallel_to_principal_eigenvector': ('principal_eigenvector',), 'returns_an_eigenvector_of_the_pencil': ('principal_generalised_eigenvector',), 'its_eigenvalue_is_the_largest': ('principal_generalised_eigenvector',), 'largest_eigenvalue': ('principal_eigenvector', 'principal_generalised_eigenvector')}

OUTSIDE = ('D > 2; output SNR = lambda_max follows from the decided eigen-equation T w = lambda_max N w by w^H(.); recovery of the steering direction of an exactly rank-one target and the scalings as multiples of the stub eigenvector (decided: eigen-equation + norm); gev rank-one trace (symbolic); "no other vector has a larger Rayleigh quotient" is Courant-Fischer on top of the decided selection of a '
           'principal (generalised) eigenpair (proved by the solver for real symmetric D = 2 only); cythonised variants are '
           'not built in this image; condition numbers / rounding')


def _target(env, name, lead, D):
    Lt = env.cplx(name, tuple(lead) + (D, D), lo=-2, hi=2)
    return Lt @ herm(Lt)


def _stub_outputs(kind):
    from symnp.core import CTX
    return list(CTX.stub_reg.get(kind, {}).values())


def h_gev(env, F=1, D=2, use_eig=False, noise='conc', inplace_check=True):
    from pb_bss.extraction.beamformer import get_gev_vector
    T = _target(env, 'Lt', (F,), D)
    N = noise_psd(env, noise, F, D)
    T0, N0 = T.copy(), N.copy()
    env.readonly(T); env.readonly(N)
    w = get_gev_vector(T, N, use_eig=use_eig)
    env.eq('target_untouched', T, T0)
    env.eq('noise_untouched', N, N0)
    env.shape_is('w', w, (F, D))
    for f in range(F):
        wv = [env.el(w, (f, d)) for d in range(D)]

        def q(M, x, y):
            t = 0.0
            for i in range(D):
                for j in range(D):
                    t = env.conj(x[i]) * env.el(M, (f, i, j)) * y[j] + t
            return t
        num, den = q(T0, wv, wv), q(N0, wv, wv)
        if env.sym:
            # the stub's eigenvalues of this bin (ascending): returned vector must be an eigenvector of the largest one
            import z3
            from symnp.core import SR, SC
            regs = _stub_outputs('geigh')
            lam = None
            for (A, (wvals, V)) in regs:
                if _same_mat(A[0], T0._a[f]) and _same_mat(A[1], N0._a[f]):
                    lam, Vv = wvals, V
            env._record_plain('generalised_eigh_called_on_this_bin[%d]' % f, lam is not None)
            if lam is None:
                continue
            lmax = lam[D - 1]
            # the returned vector is a column of the stub's eigenvector matrix whose eigenvalue is the largest one
            # (the contract gives T v_j = lambda_j N v_j, v_j^H N v_j = 1, hence output SNR = lambda_j)
            col = None
            for j in range(D):
                if all(_same_scalar(wv[d], Vv[d, j]) for d in range(D)):
                    col = j
            env._record_plain('returns_an_eigenvector_of_the_pencil[%d]' % f, col is not None)
            if col is not None:
                env.le('its_eigenvalue_is_the_largest[%d]' % f, lmax, lam[col])
        else:
            import scipy.linalg
            ev = scipy.linalg.eigh(np.asarray(T0)[f], np.asarray(N0)[f], eigvals_only=True)
            Tm, Nm = np.asarray(T0)[f], np.asarray(N0)[f]
            env.eq('principal_generalised_eigenvector[%d]' % f, Tm @ np.array(wv), (Nm @ np.array(wv)) * ev[-1], rtol=1e-6, atol=1e-8)
            rng = np.random.RandomState(3)
            for _ in range(4):
                u = rng.randn(D) + 1j * rng.randn(D)
                Tm, Nm = np.asarray(T0)[f], np.asarray(N0)[f]
                env.le('not_exceeded_by_probe[%d]' % f, np.real(np.vdot(u, Tm @ u) / np.vdot(u, Nm @ u)), (num / den).real + 1e-9)


def _same_scalar(a, b):
    import z3
    from symnp.core import SC
    a, b = SC(a), SC(b)
    return z3.simplify(a.re.z - b.re.z, som=True, sort_sums=True).eq(z3.RealVal(0)) and z3.simplify(a.im.z - b.im.z, som=True, sort_sums=True).eq(z3.RealVal(0))


def _same_mat(A, B):
    import z3
    from symnp.core import SC
    for a, b in zip(A.reshape(-1), B.reshape(-1)):
        a, b = SC(a), SC(b)
        if not (z3.simplify(a.re.z - b.re.z, som=True, sort_sums=True).eq(z3.RealVal(0)) and z3.simplify(a.im.z - b.im.z, som=True, sort_sums=True).eq(z3.RealVal(0))):
            return False
    return True


def h_pca(env, lead=(1,), D=2, scaling=None):
    from pb_bss.extraction.beamformer import get_pca_vector
    T = _target(env, 'Lt', tuple(lead), D)
    T0 = T.copy()
    env.readonly(T)
    w = get_pca_vector(T, scaling=scaling)
    env.eq('target_untouched', T, T0)
    env.shape_is('w', w, tuple(lead) + (D,))
    for li in np.ndindex(*lead):
        wv = [env.el(w, li + (d,)) for d in range(D)]
        tr = 0.0
        for d in range(D):
            tr = env.re(env.el(T0, li + (d, d))) + tr
        nrm2 = 0.0
        for d in range(D):
            nrm2 = env.abs2(wv[d]) + nrm2
        if env.sym:
            from symnp.core import SR
            regs = _stub_outputs('eigh')
            lam = None
            for (A, (wvals, V)) in regs:
                if _same_mat(A, T0._a[li]):
                    lam, Vv = wvals, V
            env._record_plain('eigh_called_on_this_matrix%s' % list(li), lam is not None)
            if lam is None:
                continue
            lmax = lam[D - 1]
            # parallel to the stub's eigenvector of the largest eigenvalue (contract: T v = lambda_max v, |v| = 1)
            for i in range(D):
                for j in range(i + 1, D):
                    env.eq('parallel_to_principal_eigenvector%s[%d,%d]' % (list(li), i, j), wv[i] * Vv[j, D - 1], wv[j] * Vv[i, D - 1])
            for i in range(D - 1):
                env.le('largest_eigenvalue%s[%d]' % (list(li), i), lam[i], lmax)
            # scaling: unit-norm principal eigenvector times 1, sqrt(tr), lambda_max
            if scaling is None:
                env.eq('unit_norm%s' % list(li), nrm2, 1.0)
            elif scaling == 'trace':
                env.eq('norm_is_sqrt_trace%s' % list(li), nrm2, tr)
            else:
                env.eq('norm_is_lambda_max%s' % list(li), nrm2, lmax * lmax)
        else:
            ev = np.linalg.eigvalsh(np.asarray(T0)[li])
            q = 0.0
            Tm = np.asarray(T0)[li]
            wn = np.array(wv)
            env.eq('principal_eigenvector%s' % list(li), Tm @ wn, wn * ev[-1], rtol=1e-6, atol=1e-8)
            want = {None: 1.0, 'trace': tr, 'eigenvalue': ev[-1] ** 2}[scaling]
            env.eq({None: 'unit_norm', 'trace': 'norm_is_sqrt_trace', 'eigenvalue': 'norm_is_lambda_max'}[scaling] + '%s' % list(li), nrm2, want, rtol=1e-6)


def h_rank1(env, kind='pca', F=1, D=2):
    from pb_bss.extraction.beamformer_wrapper import get_pca_rank_one_estimate, get_gev_rank_one_estimate
    env.assume_divisors_nonzero('trace of the rank-one estimate is non-zero')
    T = _target(env, 'Lt', (F,), D)
    N = noise_psd(env, 'conc', F, D)
    T0 = T.copy()
    env.readonly(T)
    R = get_pca_rank_one_estimate(T) if kind == 'pca' else get_gev_rank_one_estimate(T, N)
    env.eq('target_untouched', T, T0)
    env.shape_is('R', R, (F, D, D))
    for f in range(F):
        tr_t = 0.0; tr_r = 0.0
        for d in range(D):
            tr_t = env.el(T0, (f, d, d)) + tr_t
            tr_r = env.el(R, (f, d, d)) + tr_r
        if kind == 'pca' or not env.sym:
            env.eq('trace_preserved[%d]' % f, tr_r, tr_t)
        for i in range(D):
            for j in range(D):
                env.eq('hermitian[%d,%d,%d]' % (f, i, j), env.el(R, (f, i, j)), env.conj(env.el(R, (f, j, i))))
        for (i, j), (k, l) in itertools.combinations(list(itertools.product(range(D), repeat=2)), 2):
            if i < k and j < l:
                env.eq('rank_one_minor[%d]%d%d%d%d' % (f, i, j, k, l), env.el(R, (f, i, j)) * env.el(R, (f, k, l)), env.el(R, (f, i, l)) * env.el(R, (f, k, j)))


def h_rank1_exact(env, F=1, D=2):
    """an exactly rank-one target sigma a a^H is recovered by the PCA rank-one estimate"""
    from pb_bss.extraction.beamformer_wrapper import get_pca_rank_one_estimate
    env.assume_divisors_nonzero('trace of the rank-one estimate is non-zero')
    a = env.cplx('a', (F, D), lo=-2, hi=2)
    for f in range(F):
        env.assume(env.abs2(env.el(a, (f, 0))) >= 0.01, 'steering vectors: |a_0|^2 >= 0.01')
    sigma = env.real('sigma', (), lo=0.1, hi=10)
    T = sigma * (a[..., :, None] * np.conjugate(a[..., None, :]))
    R = get_pca_rank_one_estimate(T)
    env.eq('rank_one_target_recovered', R, T, rtol=1e-5)


def h_ban(env, F=1, D=2):
    from pb_bss.extraction.beamformer import blind_analytic_normalization
    w = env.cplx('w', (F, D), lo=-2, hi=2)
    N = noise_psd(env, 'conc', F, D)
    for f in range(F):
        env.assume(env.abs2(env.el(w, (f, 0))) >= 0.01, 'beamforming vectors: |w_0|^2 >= 0.01')
    w0 = w.copy()
    env.readonly(w); env.readonly(N)
    out = blind_analytic_normalization(w, N)
    env.eq('vector_untouched', w, w0)
    env.shape_is('out', out, (F, D))
    for f in range(F):
        wv = [env.el(w0, (f, d)) for d in range(D)]
        Nw = []
        for i in range(D):
            t = 0.0
            for j in range(D):
                t = env.el(N, (f, i, j)) * wv[j] + t
            Nw.append(t)
        wNw = 0.0; wNNw = 0.0
        for i in range(D):
            wNw = env.conj(wv[i]) * Nw[i] + wNw
            wNNw = env.abs2(Nw[i]) + wNNw
        wNw = env.re(wNw)
        # out = w * g with g >= 0 real and g^2 (w^H N w)^2 = w^H N N w
        for d in range(D):
            # factor is the same real number for all sensors:  out_d * w_0 == out_0 * w_d
            env.eq('same_factor[%d,%d]' % (f, d), env.el(out, (f, d)) * wv[0], env.el(out, (f, 0)) * wv[d])
        g = env.el(out, (f, 0)) / wv[0]
        env.eq('factor_is_real[%d]' % f, env.im(g), 0.0, atol=1e-9)
        env.le('factor_is_nonnegative[%d]' % f, 0.0, env.re(g))
        env.eq('factor_squared[%d]' % f, env.re(g) * env.re(g) * wNw * wNw, wNNw, rtol=1e-6)
    s = env.real('s', (), lo=1e-8, hi=1e8)
    out2 = blind_analytic_normalization(w0 * s, N)
    env.eq('independent_of_input_magnitude', out2, out)


def h_courant_real2(env):
    """for a real symmetric 2x2 matrix, the eigenvector of the largest eigenvalue maximises the Rayleigh quotient"""
    from pb_bss.extraction.beamformer import get_pca_vector
    a, b, c = [env.real(n, (), lo=-3, hi=3) for n in ('a', 'b', 'c')]
    if env.sym:
        from symnp.array import lift
        M = lift([[env.el(a), env.el(b)], [env.el(b), env.el(c)]])
    else:
        M = np.array([[a, b], [b, c]], dtype=float)
    w = get_pca_vector(M[None])[0]
    u = env.real('u', (2,), lo=-3, hi=3)

    def q(x):
        return env.el(M, (0, 0)) * x[0] * x[0] + 2 * env.el(M, (0, 1)) * x[0] * x[1] + env.el(M, (1, 1)) * x[1] * x[1]
    wv = [env.el(w, (0,)), env.el(w, (1,))]
    uv = [env.el(u, (0,)), env.el(u, (1,))]
    # q(u) * |w|^2 <= q(w) * |u|^2
    env.le('rayleigh_quotient_maximal', q(uv) * (wv[0] * wv[0] + wv[1] * wv[1]), q(wv) * (uv[0] * uv[0] + uv[1] * uv[1]))


def cases(tier):
    cs = [
        Case('gev/F1', h_gev, dict(F=1, D=2), bounds='D=2 F=1, symbolic full-rank target, concrete PD noise', lazy=True, timeout_ms=60000),
        Case('gev/F1_eig', h_gev, dict(F=1, D=2, use_eig=True), bounds='D=2 F=1 use_eig=True', lazy=True, timeout_ms=60000),
    ]
    for sc in [None, 'trace', 'eigenvalue']:
        cs.append(Case('pca/%s' % sc, h_pca, dict(lead=(2,), D=2, scaling=sc), bounds='D=2, 2 matrices, scaling %s' % sc, timeout_ms=60000))
    cs.append(Case('pca/lead22', h_pca, dict(lead=(1, 2), D=2, scaling='trace'), bounds='D=2, leading (1,2)', timeout_ms=60000))
    cs.append(Case('rank1/pca', h_rank1, dict(kind='pca', F=2, D=2), bounds='D=2 F=2', timeout_ms=60000))
    cs.append(Case('rank1/gev', h_rank1, dict(kind='gev', F=1, D=2), bounds='D=2 F=1', lazy=True, timeout_ms=60000))
    cs.append(Case('ban/F1', h_ban, dict(F=1, D=2), bounds='D=2 F=1', lazy=True, timeout_ms=60000))
    cs.append(Case('ban/F2', h_ban, dict(F=2, D=2), bounds='D=2 F=2', lazy=True, timeout_ms=60000))
    if tier != 'quick':
        cs.append(Case('gev/F2', h_gev, dict(F=2, D=2), bounds='D=2 F=2', lazy=True, timeout_ms=120000, budget_s=3000))
    cs.append(Case('courant_fischer/real2', h_courant_real2, dict(), bounds='real symmetric 2x2', timeout_ms=120000))
    return cs
