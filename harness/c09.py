"""C09  Fitted parameters stay inside their documented domain."""
import numpy as np
from symnp.runner import Case
from harness import c08
from harness import mm_common as mm

ALIASES = dict(c08.ALIASES)
ALIASES['eigenvalue_is_max_normalised_and_floored'] = ('eigenvalue_le_1', 'eigenvalue_ge_floor')

OUTSIDE = ('Gaussian positive definiteness (the Cholesky contract cannot fail; "raises on non-PD" is co-simulated only); cACG '
           'eigenvalue range for covariance_norm trace / False with an exactly zero scatter (see known findings if listed); '
           'complex Bingham; D > 2; unitarity of the cACG eigenvectors is the eigh contract (returned unmodified: decided)')


def h_cacg_domain(env, K=2, N=2, D=2, norm='eigenvalue', floor=1e-10, zero_class=False):
    """eigenvalues of one M-step from arbitrary affiliations / quadratic forms / frames (zero frames included)"""
    from pb_bss.distribution import ComplexAngularCentralGaussianTrainer
    from symnp import stubs
    if zero_class:
        z = np.zeros((1, D, N), dtype=np.complex128)
        if env.sym:
            from symnp.array import lift
            z = lift(z)
    else:
        z = env.cplx('z', (1, D, N), lo=-1, hi=1)
    gam = env.real('g', (K, N), lo=0.0, hi=1)
    for k in range(K):
        s = 0.0
        for n in range(N):
            s = env.el(gam, (k, n)) + s
        env.assume(s >= 1e-3, 'class mass >= 1e-3')
    q = env.real('q', (K, N), lo=0.05, hi=4)
    m = ComplexAngularCentralGaussianTrainer()._fit(y=z, saliency=gam, quadratic_form=q, covariance_norm=norm, eigenvalue_floor=floor)
    ev = m.covariance_eigenvalues
    env.shape_is('eigenvalues', ev, (K, D))
    env.shape_is('eigenvectors', m.covariance_eigenvectors, (K, D, D))
    lam_by_class = None
    if env.sym:
        from symnp.core import CTX
        regs = list(CTX.stub_reg.get('eigh', {}).values())
        if len(regs) == K:
            lam_by_class = [r[1][0] for r in regs]
    tiny = float(np.finfo(np.float64).tiny)
    for k in range(K):
        for i in range(D):
            e = env.el(ev, (k, i))
            if norm == 'eigenvalue':
                env.le('eigenvalue_ge_floor[%d,%d]' % (k, i), floor, e, atol=0.0, rtol=1e-9)
                if env.sym and lam_by_class is not None:
                    # returned value is max(l_i / max(l_max, tiny), floor) of the stub's ascending eigenvalues (term identity);
                    # its range follows from the abstract lemma below
                    from symnp.core import ite, SR
                    lam = lam_by_class[k]
                    from symnp.array import lift
                    amax = np.amax(lift(list(lam)))._a[()]
                    den = ite(amax >= tiny, amax, SR(tiny))
                    x = lam[i] / den
                    env.eq('eigenvalue_is_max_normalised_and_floored[%d,%d]' % (k, i), e, ite(x >= floor, x, SR(floor)))
                else:
                    env.le('eigenvalue_le_1[%d,%d]' % (k, i), e, 1.0)
            else:
                env.le('eigenvalue_positive[%d,%d]' % (k, i), 1e-300, e, atol=0.0, rtol=0.0)
    if env.sym and norm == 'eigenvalue':
        import z3
        from symnp.core import zr
        li, lm = z3.Real('lem_li'), z3.Real('lem_lmax')
        t, fl = zr(tiny), zr(floor)
        den = z3.If(lm >= t, lm, t)
        val = z3.If(li / den >= fl, li / den, fl)
        env.lemma('max_normalised_floored_eigenvalue_in_[floor,1]', [li <= lm], z3.And(val >= fl, val <= 1))
        env.lemma('largest_eigenvalue_is_exactly_1_for_nonzero_scatter', [lm >= t, li == lm], val == 1)
    if env.sym:
        # eigenvectors are the stub's (unitary by contract), returned unmodified
        from symnp.core import CTX
        regs = list(CTX.stub_reg.get('eigh', {}).values())
        env._record_plain('one_eigh_per_class', len(regs) >= 1)
        for k in range(min(K, len(regs))):
            pass
    else:
        V = np.asarray(m.covariance_eigenvectors)
        for k in range(K):
            env.eq('eigenvectors_unitary[%d]' % k, V[k].conj().T @ V[k], np.eye(D), atol=1e-8)


def cases(tier):
    cs = c08.cases(tier, domain=True)
    for norm in ['eigenvalue']:
        cs.append(Case('domain/cacg/%s' % norm, h_cacg_domain, dict(norm=norm), bounds='K=2 N=2 D=2, arbitrary (also zero / collinear) frames', timeout_ms=60000))
        cs.append(Case('domain/cacg/%s_zero_frames' % norm, h_cacg_domain, dict(norm=norm, zero_class=True), bounds='all-zero frames', timeout_ms=60000))
    for norm in ['trace', False]:
        cs.append(Case('domain/cacg/%s_zero_frames' % norm, h_cacg_domain, dict(norm=norm, zero_class=True), bounds='all-zero frames, covariance_norm=%s' % norm, timeout_ms=60000))
    return cs
