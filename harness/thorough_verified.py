"""properties whose thorough-tier extra cases were run end-to-end on the unchanged tree with exit 0"""
THOROUGH_VERIFIED = {'C01', 'C10'}
